package rg

import (
	"fmt"
	"go/token"
	"go/types"
	"sort"
	"strings"

	"golang.org/x/tools/go/ssa"
)

// namedPointee: the name of the struct type a field address goes into ("readState", "RaftNode").
func namedPointee(fa *ssa.FieldAddr) string {
	pt, ok := fa.X.Type().Underlying().(*types.Pointer)
	if !ok {
		return ""
	}
	return namedOf(pt.Elem())
}

// mentionsField: the backward slice of v (within its function) reads a field with one of the given names.
func mentionsField(v ssa.Value, names ...string) bool {
	found := false
	backslice(v, func(x ssa.Value) bool {
		switch y := x.(type) {
		case *ssa.FieldAddr:
			for _, n := range names {
				if fieldName(y) == n {
					found = true
				}
			}
		case *ssa.Field:
			if st, ok := y.X.Type().Underlying().(*types.Struct); ok && y.Field < st.NumFields() {
				for _, n := range names {
					if st.Field(y.Field).Name() == n {
						found = true
					}
				}
			}
		}
		return !found
	})
	return found
}

// mentionsFieldOf: the backward slice of v reads field `field` of a value of the named struct type `typ`.
func mentionsFieldOf(v ssa.Value, typ, field string) bool {
	found := false
	backslice(v, func(x ssa.Value) bool {
		switch y := x.(type) {
		case *ssa.FieldAddr:
			if pt, ok := y.X.Type().Underlying().(*types.Pointer); ok && namedOf(pt.Elem()) == typ && fieldName(y) == field {
				found = true
			}
		case *ssa.Field:
			if st, ok := y.X.Type().Underlying().(*types.Struct); ok && y.Field < st.NumFields() && namedOf(y.X.Type()) == typ && st.Field(y.Field).Name() == field {
				found = true
			}
		}
		return !found
	})
	return found
}

// ---------- R11z: the array part of the decoder state changes as one ----------

var rR11z = RuleRef{Name: "R11z", Doc: "the decoder's request-in-progress is one unit: the three fields of the read state that describe it (arrayLen, inArray, arrayData) are only ever written together -- in the same basic block, or by replacing the whole record. The parser tests `inArray` to decide whether a line is an element and dereferences `arrayData` when it is: a reset that clears two of the three leaves a state in which the next top-level value is appended to a nil request", Run: func(c *C) {
	group := []string{"arrayLen", "inArray", "arrayData"}
	n := 0
	for _, fn := range c.P.allFuncs("resp") {
		ord := 0
		for _, b := range fn.Blocks {
			wrote := map[string]token.Pos{}
			for _, in := range b.Instrs {
				st, ok := in.(*ssa.Store)
				if !ok {
					continue
				}
				fa, ok := st.Addr.(*ssa.FieldAddr)
				if !ok || namedPointee(fa) != "readState" {
					continue
				}
				for _, g := range group {
					if fieldName(fa) == g {
						wrote[g] = st.Pos()
					}
				}
			}
			if len(wrote) == 0 {
				continue
			}
			n++
			ord++
			var missing []string
			var pos token.Pos
			for _, g := range group {
				if p, ok := wrote[g]; ok {
					pos = p
				} else {
					missing = append(missing, g)
				}
			}
			c.Add("R11z", fnName(fn), fmt.Sprintf("write #%d to the array part of the read state covers all of it", ord), pos, len(missing) == 0, "not written here: "+strings.Join(missing, ", "))
		}
	}
	c.Count("R11z_array_state_writes", n)
	c.Min("R11z_array_state_writes", 1)
}}

// ---------- R16i: progress restored from a snapshot comes with its membership ----------

var rR16i = RuleRef{Name: "R16i", Doc: "a raft node that takes its progress from a snapshot takes the membership with it: every function of raftexample that stores the applied index from snapshot metadata (`rc.appliedIndex = snap.Metadata.Index`) also stores the configuration state from the same metadata. The entries that built the membership lie behind the snapshot and are never replayed: a node that restores the index alone stamps its next snapshot with an empty voter set, and whoever starts from that snapshot never campaigns", Run: func(c *C) {
	n := 0
	for _, fn := range c.P.allFuncs("raftexample") {
		var trigger *ssa.Store
		conf := false
		for _, b := range fn.Blocks {
			for _, in := range b.Instrs {
				st, ok := in.(*ssa.Store)
				if !ok {
					continue
				}
				fa, ok := st.Addr.(*ssa.FieldAddr)
				if !ok || namedPointee(fa) != "RaftNode" {
					continue
				}
				switch fieldName(fa) {
				case "appliedIndex":
					if mentionsFieldOf(st.Val, "SnapshotMetadata", "Index") {
						trigger = st
					}
				case "confState":
					if mentionsFieldOf(st.Val, "SnapshotMetadata", "ConfState") {
						conf = true
					}
				}
			}
		}
		if trigger == nil {
			continue
		}
		n++
		c.Add("R16i", fnName(fn), "the applied index taken from snapshot metadata comes with the snapshot's configuration state", trigger.Pos(), conf, "no store of Metadata.ConfState into RaftNode.confState in this function")
	}
	c.Count("R16i_progress_restores", n)
	c.Min("R16i_progress_restores", 2)
}}

// ---------- R18d: a stream's id list and its entry map move together ----------

var rR18d = RuleRef{Name: "R18d", Doc: "a stream keeps its entries twice, as an ordered list of ids and as a map from id to fields: on every path of a Stream method to a return, whenever the map was changed (an insertion, a deletion, a replacement of the map) the list was stored too. A trim that rebuilds the map and returns without cutting the list leaves ids that XRANGE reports with no fields and that no later trim removes", Run: func(c *C) {
	n := 0
	for _, fn := range c.P.allFuncs("memdb") {
		if fn.Signature.Recv() == nil || namedOf(fn.Signature.Recv().Type()) != "Stream" {
			continue
		}
		isEntryMap := func(v ssa.Value) bool {
			u, ok := v.(*ssa.UnOp)
			if !ok || u.Op != token.MUL {
				return false
			}
			fa, ok := u.X.(*ssa.FieldAddr)
			if !ok || namedPointee(fa) != "Stream" {
				return false
			}
			_, isMap := u.Type().Underlying().(*types.Map)
			return isMap
		}
		// per instruction: does it change the map (bit 1) or store the list (bit 2)
		effect := func(in ssa.Instruction) int {
			switch x := in.(type) {
			case *ssa.MapUpdate:
				if isEntryMap(x.Map) {
					return 1
				}
			case *ssa.Call:
				if bi, ok := x.Call.Value.(*ssa.Builtin); ok && (bi.Name() == "delete" || bi.Name() == "clear") && len(x.Call.Args) > 0 && isEntryMap(x.Call.Args[0]) {
					return 1
				}
			case *ssa.Store:
				if fa, ok := x.Addr.(*ssa.FieldAddr); ok && namedPointee(fa) == "Stream" {
					switch fa.Type().Underlying().(*types.Pointer).Elem().Underlying().(type) {
					case *types.Map:
						return 1
					case *types.Slice:
						return 2
					}
				}
			}
			return 0
		}
		any := false
		for _, b := range fn.Blocks {
			for _, in := range b.Instrs {
				if effect(in) != 0 {
					any = true
				}
			}
		}
		if !any {
			continue
		}
		n++
		// path states: subsets of {map changed, list stored}
		inState := map[*ssa.BasicBlock]int{} // bit set of reachable states (1<<state)
		work := []*ssa.BasicBlock{fn.Blocks[0]}
		inState[fn.Blocks[0]] = 1 << 0
		var bad []string
		reported := map[*ssa.BasicBlock]bool{}
		for len(work) > 0 {
			b := work[len(work)-1]
			work = work[:len(work)-1]
			states := inState[b]
			out := 0
			for st := 0; st < 4; st++ {
				if states&(1<<st) == 0 {
					continue
				}
				cur := st
				for _, in := range b.Instrs {
					cur |= effect(in)
				}
				out |= 1 << cur
			}
			if _, isRet := b.Instrs[len(b.Instrs)-1].(*ssa.Return); isRet && !reported[b] {
				if out&(1<<1) != 0 {
					bad = append(bad, c.pos(b.Instrs[len(b.Instrs)-1].Pos())+": returns with the entry map changed and the id list as it was")
					reported[b] = true
				}
				// the other direction is not demanded: a deletion loop over a prefix of the list may run zero times
			}
			for _, s := range b.Succs {
				if inState[s]|out != inState[s] {
					inState[s] |= out
					work = append(work, s)
				}
			}
		}
		sort.Strings(bad)
		c.Add("R18d", fnName(fn), "the id list and the entry map change together on every path", fn.Pos(), len(bad) == 0, strings.Join(bad, "; "))
	}
	c.Count("R18d_stream_mutators", n)
	c.Min("R18d_stream_mutators", 2)
}}

// ---------- R16j: replaying the WAL, every entry record above the start index lands in the log ----------

var rR16j = RuleRef{Name: "R16j", Doc: "reading the WAL back, an entry record whose index lies above the start index replaces the in-memory log from its position on, whatever its term: between the decoding of the record and the truncating append only a comparison of the record's index with the start index may lead past the append; any other way past it ends the read with an error. A later record for an index that was read before is how the log says that a new leader overwrote uncommitted entries -- possibly with entries of a lower term: a reader that skips such a record resurrects entries the cluster discarded", Run: func(c *C) {
	n := 0
	type job struct {
		fn    *ssa.Function
		sb    *ssa.BasicBlock
		entry ssa.Value // the decoded entry: the call, or the helper's parameter it was handed to
		pos   token.Pos
	}
	var jobs []job
	// anchored at what is done, not at a name: every append of a raftpb.Entry to a slice of entries in the wal package,
	// walked from where that entry value came into being (a decoding call's result, a local a decoder filled, or the
	// parameter of a helper that places the entry)
	seenJob := map[string]bool{}
	for _, fn := range c.P.allFuncs(walPkg) {
		for _, b := range fn.Blocks {
			for _, in := range b.Instrs {
				ap, ok := isAppend2(in)
				if !ok || len(ap.Call.Args) != 2 {
					continue
				}
				sl, ok := ap.Type().Underlying().(*types.Slice)
				if !ok || namedOf(sl.Elem()) != "Entry" {
					continue
				}
				// a truncating append: the destination is a prefix of the log read so far
				if _, isCut := ap.Call.Args[0].(*ssa.Slice); !isCut {
					continue
				}
				elems, _ := sliceLiteralElems(ap.Call.Args[1])
				for _, e := range elems {
					var entry ssa.Value
					var sb *ssa.BasicBlock
					var pos token.Pos
					switch y := e.(type) {
					case *ssa.Call:
						entry, sb, pos = y, y.Block(), y.Pos()
					case *ssa.Parameter:
						entry, sb, pos = y, fn.Blocks[0], fn.Pos()
					case *ssa.UnOp:
						al, ok := y.X.(*ssa.Alloc)
						if !ok || al.Referrers() == nil {
							continue
						}
						for _, r := range *al.Referrers() {
							switch z := r.(type) {
							case *ssa.Store:
								if z.Addr == ssa.Value(al) {
									switch v := z.Val.(type) {
									case *ssa.Call:
										entry, sb, pos = v, v.Block(), v.Pos()
									case *ssa.Parameter:
										entry, sb, pos = v, fn.Blocks[0], fn.Pos()
									}
								}
							case *ssa.Call:
								// a decoder that fills the local: MustUnmarshal(&e, data)
								for _, a := range z.Call.Args {
									if a == ssa.Value(al) {
										entry, sb, pos = al, z.Block(), z.Pos()
									}
									if mi, ok := a.(*ssa.MakeInterface); ok && mi.X == ssa.Value(al) {
										entry, sb, pos = al, z.Block(), z.Pos()
									}
								}
							}
						}
					}
					if entry == nil {
						continue
					}
					key := fmt.Sprintf("%s|%d|%s", fn.String(), sb.Index, entry.Name())
					if seenJob[key] {
						continue
					}
					seenJob[key] = true
					jobs = append(jobs, job{fn, sb, entry, pos})
				}
			}
		}
	}
	for _, jb := range jobs {
		{
			{
				fn, sb, pos := jb.fn, jb.sb, jb.pos
				var call ssa.Value = jb.entry
				// the appends of this entry
				var appends []*ssa.Call
				for _, b := range fn.Blocks {
					for _, in2 := range b.Instrs {
						ap, ok := isAppend2(in2)
						if !ok || len(ap.Call.Args) != 2 {
							continue
						}
						uses := false
						elems, _ := sliceLiteralElems(ap.Call.Args[1])
						for _, e := range elems {
							backslice(e, func(x ssa.Value) bool {
								if x == call {
									uses = true
								}
								return !uses
							})
							if u, ok := e.(*ssa.UnOp); ok && u.X == call {
								uses = true
							}
							// the entry may sit in a local the literal copies from
							if u, ok := e.(*ssa.UnOp); ok {
								if al, ok := u.X.(*ssa.Alloc); ok && al.Referrers() != nil {
									for _, r := range *al.Referrers() {
										if st, ok := r.(*ssa.Store); ok && st.Addr == ssa.Value(al) && st.Val == call {
											uses = true
										}
									}
								}
							}
						}
						if uses {
							appends = append(appends, ap)
						}
					}
				}
				if len(appends) == 0 {
					continue // a scanner that does not rebuild the log (Verify, ValidSnapshotEntries)
				}
				n++
				isA := map[*ssa.BasicBlock]bool{}
				for _, ap := range appends {
					isA[ap.Block()] = true
				}
				// blocks from which an append can still be reached in this iteration
				can := map[*ssa.BasicBlock]bool{}
				var back func(b *ssa.BasicBlock)
				back = func(b *ssa.BasicBlock) {
					if can[b] {
						return
					}
					can[b] = true
					if b == sb {
						return
					}
					for _, p := range b.Preds {
						back(p)
					}
				}
				for b := range isA {
					back(b)
				}
				indexTest := func(b *ssa.BasicBlock) bool {
					iff, ok := b.Instrs[len(b.Instrs)-1].(*ssa.If)
					if !ok {
						return false
					}
					bo, ok := iff.Cond.(*ssa.BinOp)
					if !ok {
						return false
					}
					okLeaves := true
					sawIndex := false
					backslice(bo, func(x ssa.Value) bool {
						switch y := x.(type) {
						case *ssa.FieldAddr:
							switch fieldName(y) {
							case "Index":
								sawIndex = true
							case "start":
							default:
								okLeaves = false
							}
						case *ssa.Field:
							if st, ok := y.X.Type().Underlying().(*types.Struct); ok && y.Field < st.NumFields() {
								switch st.Field(y.Field).Name() {
								case "Index":
									sawIndex = true
								case "start":
								default:
									okLeaves = false
								}
							}
						case *ssa.Call:
							if bi, isB := y.Call.Value.(*ssa.Builtin); isB && bi.Name() == "len" {
								return false
							}
							if x != call {
								okLeaves = false
							}
							return false
						}
						return okLeaves
					})
					return okLeaves && sawIndex
				}
				// a verdict computed by an arithmetic helper from the two indexes (up, keep, ok := entrySlot(e.Index,
				// w.start.Index, len(ents))): the helper sees no term
				helperVerdict := func(b *ssa.BasicBlock) bool {
					iff, ok := b.Instrs[len(b.Instrs)-1].(*ssa.If)
					if !ok {
						return false
					}
					cv := iff.Cond
					for {
						u, isNot := cv.(*ssa.UnOp)
						if !isNot || u.Op != token.NOT {
							break
						}
						cv = u.X
					}
					var hc *ssa.Call
					switch y := cv.(type) {
					case *ssa.Extract:
						hc, _ = y.Tuple.(*ssa.Call)
					case *ssa.Call:
						hc = y
					}
					if hc == nil {
						return false
					}
					cf := hc.Call.StaticCallee()
					if cf == nil || cf.Blocks == nil || cf.Pkg != fn.Pkg {
						return false
					}
					sawIndex := false
					for _, a := range hc.Call.Args {
						if !isIntType(a.Type()) {
							return false
						}
						if mentionsField(a, "Term") {
							return false
						}
						if mentionsField(a, "Index") {
							sawIndex = true
						}
					}
					return sawIndex
				}
				var bad []string
				seen := map[*ssa.BasicBlock]bool{}
				var walk func(b *ssa.BasicBlock)
				walk = func(b *ssa.BasicBlock) {
					if seen[b] || isA[b] {
						return
					}
					seen[b] = true
					if !can[b] {
						// past the append: only as a failed read
						failed := false
						if ret, ok := b.Instrs[len(b.Instrs)-1].(*ssa.Return); ok {
							for _, v := range returnedValues(ret) {
								if isErrorType(v.Type()) && !isNilConst(v) {
									failed = true
								}
							}
						}
						if noReturnBlock(b) {
							failed = true
						}
						if !failed {
							bad = append(bad, "the record can pass the append by way of "+c.pos(blockPos(b)))
						}
						return
					}
					for _, s := range b.Succs {
						if (indexTest(b) || helperVerdict(b)) && !can[s] {
							continue // the record lies at or below the start index
						}
						walk(s)
					}
				}
				walk(sb)
				c.Add("R16j", fnName(fn), "a decoded entry above the start index is appended or the read fails", pos, len(bad) == 0, strings.Join(uniq(bad), "; "))
			}
		}
	}
	c.Count("R16j_replayed_entry_records", n)
	c.Min("R16j_replayed_entry_records", 1)
}}

// noReturnBlock: the block ends in a call that does not return (panic, log.Fatal, os.Exit).
func noReturnBlock(b *ssa.BasicBlock) bool {
	for _, in := range b.Instrs {
		if noReturnCall(in) {
			return true
		}
	}
	_, isPanic := b.Instrs[len(b.Instrs)-1].(*ssa.Panic)
	return isPanic
}

// ---------- R16l: entriesToApply cuts the batch exactly behind what was applied ----------

// linearForm writes an integer expression as a sum of leaves with integer coefficients plus a constant; leaves are named
// by canon(). ok is false for anything but +, -, conversions, constants and leaves.
func linearForm(v ssa.Value) (map[string]int64, int64, bool) {
	c, k, _, ok := linearFormLeaves(v)
	return c, k, ok
}

func linearFormLeaves(v ssa.Value) (map[string]int64, int64, map[string]ssa.Value, bool) {
	leaves := map[string]ssa.Value{}
	coef := map[string]int64{}
	var k int64
	ok := true
	var walk func(v ssa.Value, sign int64, d int)
	walk = func(v ssa.Value, sign int64, d int) {
		if d > 12 {
			ok = false
			return
		}
		if c, isC := constInt(v); isC {
			k += sign * c
			return
		}
		switch x := v.(type) {
		case *ssa.BinOp:
			switch x.Op {
			case token.ADD:
				walk(x.X, sign, d+1)
				walk(x.Y, sign, d+1)
				return
			case token.SUB:
				walk(x.X, sign, d+1)
				walk(x.Y, -sign, d+1)
				return
			}
		case *ssa.Convert:
			if isIntType(x.X.Type()) && isIntType(x.Type()) {
				walk(x.X, sign, d+1)
				return
			}
		case *ssa.ChangeType:
			walk(x.X, sign, d+1)
			return
		}
		coef[canon(v)] += sign
		leaves[canon(v)] = v
	}
	walk(v, 1, 0)
	for n, c := range coef {
		if c == 0 {
			delete(coef, n)
		}
	}
	return coef, k, leaves, ok
}

// firstIndexOf: v is batch[0].Index.
func firstIndexOf(v ssa.Value, batch ssa.Value) bool {
	u, ok := v.(*ssa.UnOp)
	if !ok || u.Op != token.MUL {
		return false
	}
	fa, ok := u.X.(*ssa.FieldAddr)
	if !ok || fieldName(fa) != "Index" {
		return false
	}
	ia, ok := fa.X.(*ssa.IndexAddr)
	if !ok || ia.X != batch {
		return false
	}
	k, isK := constInt(ia.Index)
	return isK && k == 0
}

var rR16l = RuleRef{Name: "R16l", Doc: "the committed entries handed to the state machine start right behind the applied index: in the raftexample function that trims a committed batch against RaftNode.appliedIndex, every slice of the batch starts at (applied index) - (index of the batch's first entry) + 1, written in any order (compared as a linear form, not as text). One less and the entry at the applied index is executed a second time on this replica only: INCR, APPEND, LPUSH diverge silently, the proposer's callback was already consumed", Run: func(c *C) {
	n := 0
	for _, fn := range c.P.allFuncs("raftexample") {
		if len(fn.Params) < 2 {
			continue
		}
		// the applied index: the node's field, or a parameter that every caller fills from it
		isApplied := func(v ssa.Value) bool {
			if v == nil {
				return false
			}
			if strings.HasSuffix(canon(v), ".appliedIndex") {
				return true
			}
			prm, ok := v.(*ssa.Parameter)
			if !ok {
				return false
			}
			idx := -1
			for i, p := range fn.Params {
				if p == prm {
					idx = i
				}
			}
			sites := c.callSitesOf(fn)
			if idx < 0 || len(sites) == 0 {
				return false
			}
			for _, cs := range sites {
				if idx >= len(cs.Common().Args) || !strings.HasSuffix(canon(cs.Common().Args[idx]), ".appliedIndex") {
					return false
				}
			}
			return true
		}
		// the batch parameter: a slice of raftpb.Entry
		var batch *ssa.Parameter
		for _, p := range fn.Params {
			if sl, ok := p.Type().Underlying().(*types.Slice); ok && namedOf(sl.Elem()) == "Entry" {
				batch = p
			}
		}
		if batch == nil {
			continue
		}
		ord := 0
		for _, b := range fn.Blocks {
			for _, in := range b.Instrs {
				sl, ok := in.(*ssa.Slice)
				if !ok || sl.X != ssa.Value(batch) || sl.Low == nil {
					continue
				}
				coef, k, leaves, lin := linearFormLeaves(sl.Low)
				// only cuts that are computed from the applied index are this rule's business
				usesApplied := false
				for name := range coef {
					if isApplied(leaves[name]) {
						usesApplied = true
					}
				}
				if !usesApplied {
					continue
				}
				n++
				ord++
				okForm := lin && k == 1 && len(coef) == 2
				var desc []string
				for name, cf := range coef {
					desc = append(desc, fmt.Sprintf("%+d*%s", cf, name))
					switch {
					case isApplied(leaves[name]):
						okForm = okForm && cf == 1
					case firstIndexOf(leaves[name], batch):
						okForm = okForm && cf == -1
					default:
						okForm = false
					}
				}
				sort.Strings(desc)
				c.Add("R16l", fnName(fn), fmt.Sprintf("cut #%d of the committed batch starts at applied - first + 1", ord), sl.Pos(), okForm, fmt.Sprintf("the lower bound is %s %+d", strings.Join(desc, " "), k))
			}
		}
	}
	c.Count("R16l_batch_cuts", n)
	c.Min("R16l_batch_cuts", 1)
}}

// ---------- R16b: a committed batch handed to the state machine owns its memory ----------

var rR16b = RuleRef{Name: "R16b", Doc: "what the raft loop hands to the apply loop over the commit channel is the receiver's alone: the slices inside a record sent on a channel by raftexample are built from a fresh `make` (or nil) in the sending function, never re-sliced from a field of the long-lived node or from a parameter. The hand-over returns when the apply loop has *received* the batch, not when it has executed it: a buffer kept for the next batch is overwritten while the previous one is still being iterated, committed commands are skipped and others run twice", Run: func(c *C) {
	n := 0
	for _, fn := range c.P.allFuncs("raftexample") {
		ord := 0
		for _, b := range fn.Blocks {
			for _, in := range b.Instrs {
				var sent ssa.Value
				switch x := in.(type) {
				case *ssa.Send:
					sent = x.X
				case *ssa.Select:
					for _, st := range x.States {
						if st.Dir == types.SendOnly && st.Send != nil {
							if al, ok := st.Send.(*ssa.Alloc); ok {
								sent = al
							}
						}
					}
				}
				al, ok := sent.(*ssa.Alloc)
				if !ok || al.Referrers() == nil {
					continue
				}
				for _, r := range *al.Referrers() {
					fa, ok := r.(*ssa.FieldAddr)
					if !ok || fa.Referrers() == nil {
						continue
					}
					if _, isSl := fa.Type().Underlying().(*types.Pointer).Elem().Underlying().(*types.Slice); !isSl {
						continue
					}
					for _, rr := range *fa.Referrers() {
						st, ok := rr.(*ssa.Store)
						if !ok || st.Addr != ssa.Value(fa) {
							continue
						}
						n++
						ord++
						bad := c.sliceRootedOutside(st.Val, 0, map[ssa.Value]bool{})
						c.Add("R16b", fnName(fn), fmt.Sprintf("slice #%d of a record sent over a channel is built in the sending function", ord), st.Pos(), bad == "", "its backing array comes from "+bad)
					}
				}
			}
		}
	}
	c.Count("R16b_sent_slices", n)
	c.Min("R16b_sent_slices", 1)
}}

// sliceRootedOutside follows a slice value back to where its backing array comes from -- through phis, re-slicing,
// appends, the parameters of unexported helpers (to every call site's argument) and the results of first-party helpers (to
// what they return) -- and names the first origin that is not a `make`/nil of the functions walked; "" if there is none.
func (c *C) sliceRootedOutside(v ssa.Value, depth int, seen map[ssa.Value]bool) string {
	if seen[v] {
		return ""
	}
	seen[v] = true
	if depth > 4 {
		return "a chain of helpers deeper than the analysis follows"
	}
	switch y := v.(type) {
	case *ssa.MakeSlice:
		return ""
	case *ssa.Const:
		return ""
	case *ssa.Phi:
		for _, e := range y.Edges {
			if b := c.sliceRootedOutside(e, depth, seen); b != "" {
				return b
			}
		}
		return ""
	case *ssa.Slice:
		return c.sliceRootedOutside(y.X, depth, seen)
	case *ssa.Call:
		if ap, ok := isAppend(y); ok {
			return c.sliceRootedOutside(ap.Call.Args[0], depth, seen)
		}
		if cf := y.Call.StaticCallee(); cf != nil && cf.Blocks != nil && firstParty(cf) {
			return c.resultRootedOutside(cf, 0, depth+1, seen)
		}
		return "the result of " + callName(y)
	case *ssa.Extract:
		if call, ok := y.Tuple.(*ssa.Call); ok {
			if cf := call.Call.StaticCallee(); cf != nil && cf.Blocks != nil && firstParty(cf) {
				return c.resultRootedOutside(cf, y.Index, depth+1, seen)
			}
		}
		return "a tuple result"
	case *ssa.UnOp:
		return "a load of " + canon(y)
	case *ssa.Parameter:
		fn := y.Parent()
		idx := -1
		for i, p := range fn.Params {
			if p == y {
				idx = i
			}
		}
		sites := c.callSitesOf(fn)
		if idx < 0 || len(sites) == 0 || (fn.Object() != nil && fn.Object().Exported()) {
			return "parameter " + y.Name() + " of " + fn.Name()
		}
		for _, cs := range sites {
			args := cs.Common().Args
			if idx >= len(args) {
				return "parameter " + y.Name()
			}
			if b := c.sliceRootedOutside(args[idx], depth+1, seen); b != "" {
				return b
			}
		}
		return ""
	}
	return fmt.Sprintf("%T", v)
}

func (c *C) resultRootedOutside(fn *ssa.Function, k int, depth int, seen map[ssa.Value]bool) string {
	for _, b := range fn.Blocks {
		ret, ok := b.Instrs[len(b.Instrs)-1].(*ssa.Return)
		if !ok || k >= len(ret.Results) {
			continue
		}
		for _, v := range retResults(ret)[k] {
			if bad := c.sliceRootedOutside(v, depth, seen); bad != "" {
				return bad
			}
		}
	}
	return ""
}

// callSitesOf: the static call sites of fn in the first-party packages.
func (c *C) callSitesOf(fn *ssa.Function) []ssa.CallInstruction {
	if c.callSiteMemo == nil {
		c.callSiteMemo = map[*ssa.Function][]ssa.CallInstruction{}
		for _, f := range c.P.allFuncs(firstPartyPkgs...) {
			for _, b := range f.Blocks {
				for _, in := range b.Instrs {
					if ci, ok := in.(ssa.CallInstruction); ok {
						if cf := ci.Common().StaticCallee(); cf != nil {
							c.callSiteMemo[cf] = append(c.callSiteMemo[cf], ci)
						}
					}
				}
			}
		}
	}
	return c.callSiteMemo[fn]
}

// ---------- R15l: the multi-key commands hold their keys together ----------

// multiKeyCommands: the commands whose executors, on the reviewed tree, take the stripes of all their keys in one
// *Multi acquisition (confirmed by reading; DEL, EXISTS and MGET go key by key there and are not in the table).
var multiKeyCommands = []string{"mset", "rename", "lmove", "smove", "sinter", "sinterstore", "sunion", "sunionstore", "sdiff", "sdiffstore"}

var rR15l = RuleRef{Name: "R15l", Doc: "the multi-key commands hold their keys together: the executor registered for MSET, RENAME, LMOVE, SMOVE, SINTER[STORE], SUNION[STORE], SDIFF[STORE] reaches a *Multi stripe acquisition (directly or through a helper) and takes no single-key stripe lock inside a loop. A set operation that locks, reads and releases key after key is not a snapshot: an atomic SMOVE between two of its keys completes between two iterations and the reply shows the member in both sets", Run: func(c *C) {
	n := 0
	isLocksMethod := func(cf *ssa.Function, names ...string) bool {
		if cf == nil || cf.Signature.Recv() == nil || namedOf(cf.Signature.Recv().Type()) != "Locks" {
			return false
		}
		for _, nm := range names {
			if cf.Name() == nm {
				return true
			}
		}
		return false
	}
	for _, name := range multiKeyCommands {
		fn := c.Facts.Executors[name]
		if fn == nil {
			c.Undecided("R15l", "the executor registered for "+name)
			continue
		}
		n++
		multi := false
		var looped []string
		seen := map[*ssa.Function]bool{}
		var visit func(f *ssa.Function, d int)
		visit = func(f *ssa.Function, d int) {
			if f == nil || seen[f] || f.Blocks == nil || d > 3 {
				return
			}
			seen[f] = true
			loops := naturalLoops(f)
			for _, b := range f.Blocks {
				for _, in := range b.Instrs {
					switch x := in.(type) {
					case *ssa.MakeClosure:
						visit(x.Fn.(*ssa.Function), d+1)
					case ssa.CallInstruction:
						cf := callee(x)
						if isLocksMethod(cf, "LockMulti", "RLockMulti") {
							multi = true
							continue
						}
						if isLocksMethod(cf, "Lock", "RLock") {
							for _, body := range loops {
								if body[b] {
									looped = append(looped, c.pos(in.Pos()))
								}
							}
							continue
						}
						if cf != nil && firstParty(cf) && cf.Name() != "CheckTTL" {
							visit(cf, d+1)
						}
					}
				}
			}
		}
		visit(fn, 0)
		why := ""
		if !multi {
			why = "no LockMulti/RLockMulti is reached"
		}
		if len(looped) > 0 {
			why += " a single-key stripe is taken inside a loop at " + strings.Join(uniq(looped), ", ")
		}
		c.Add("R15l", fnName(fn), strings.ToUpper(name)+" takes the stripes of its keys in one acquisition", fn.Pos(), multi && len(looped) == 0, strings.TrimSpace(why))
	}
	c.Count("R15l_multi_key_commands", n)
	c.Min("R15l_multi_key_commands", 10)
}}

// ---------- R20x: HSETNX tests and writes in one hold ----------

var rR20x = RuleRef{Name: "R20x", Doc: "set-if-absent on a hash field decides and writes in one critical section: in the executor registered for HSETNX (and what it calls) every call of (*Hash).Set lies behind the negative outcome of a (*Hash).Exist test of the same hash, with no stripe acquired or released in between. A fast path that probes under the read lock and then writes under the write lock without looking again lets two clients both be told 1, and the later one overwrites the value the earlier one was promised", Run: func(c *C) {
	fn := c.Facts.Executors["hsetnx"]
	if fn == nil {
		c.Undecided("R20x", "the executor registered for hsetnx")
		return
	}
	n := 0
	seen := map[*ssa.Function]bool{}
	var visit func(f *ssa.Function, d int)
	visit = func(f *ssa.Function, d int) {
		if f == nil || seen[f] || f.Blocks == nil || d > 2 {
			return
		}
		seen[f] = true
		isHashMethod := func(in ssa.Instruction, name string) (*ssa.Call, bool) {
			call, ok := in.(*ssa.Call)
			if !ok {
				return nil, false
			}
			cf := callee(call)
			if cf == nil || cf.Signature.Recv() == nil || namedOf(cf.Signature.Recv().Type()) != "Hash" || cf.Name() != name {
				return nil, false
			}
			return call, true
		}
		touchesStripe := func(b *ssa.BasicBlock) bool {
			for _, in := range b.Instrs {
				if ci, ok := in.(ssa.CallInstruction); ok {
					if _, isDefer := in.(*ssa.Defer); isDefer {
						continue
					}
					if cf := callee(ci); cf != nil && cf.Signature.Recv() != nil && namedOf(cf.Signature.Recv().Type()) == "Locks" {
						return true
					}
				}
			}
			return false
		}
		for _, b := range f.Blocks {
			for _, in := range b.Instrs {
				if mc, ok := in.(*ssa.MakeClosure); ok {
					visit(mc.Fn.(*ssa.Function), d+1)
				}
				if ci, ok := in.(ssa.CallInstruction); ok {
					if cf := callee(ci); cf != nil && firstParty(cf) && cf.Signature.Recv() == nil {
						visit(cf, d+1)
					}
				}
				set, ok := isHashMethod(in, "Set")
				if !ok {
					continue
				}
				n++
				// a dominating Exist test whose negative edge leads here
				guarded, clean := false, false
				for d := b; d != nil && d.Idom() != nil; d = d.Idom() {
					id := d.Idom()
					if len(d.Preds) != 1 || d.Preds[0] != id {
						continue
					}
					cond, neg, ok := branchCond(id, d)
					if !ok {
						continue
					}
					cv := cond
					for {
						u, isNot := cv.(*ssa.UnOp)
						if !isNot || u.Op != token.NOT {
							break
						}
						cv, neg = u.X, !neg
					}
					ex, isEx := isHashMethod(toInstr(cv), "Exist")
					if !isEx || !neg || canon(ex.Call.Args[0]) != canon(set.Call.Args[0]) {
						continue
					}
					guarded = true
					// no stripe operation between the test and the write
					clean = true
					between := map[*ssa.BasicBlock]bool{}
					var fwd func(x *ssa.BasicBlock)
					fwd = func(x *ssa.BasicBlock) {
						if between[x] || x == b {
							return
						}
						between[x] = true
						for _, s := range x.Succs {
							fwd(s)
						}
					}
					fwd(d)
					for x := range between {
						if reaches(x, b, nil) && touchesStripe(x) {
							clean = false
						}
					}
				}
				why := "no (*Hash).Exist test of the same hash whose negative outcome dominates the write"
				if guarded && !clean {
					why = "a stripe is acquired or released between the test and the write"
				}
				c.Add("R20x", fnName(f), "the field is written only where it was found absent in the same hold", set.Pos(), guarded && clean, why)
			}
		}
	}
	visit(fn, 0)
	c.Count("R20x_hsetnx_writes", n)
	c.Min("R20x_hsetnx_writes", 1)
}}

func toInstr(v ssa.Value) ssa.Instruction {
	if in, ok := v.(ssa.Instruction); ok {
		return in
	}
	return nil
}

// ---------- R16aa: an ignored snapshot is answered with the commit index ----------

var rR16aa = RuleRef{Name: "R16aa", Doc: "a follower acknowledges only what it knows to match the leader: in the raft function that handles MsgSnap, a MsgAppResp sent where `restore` reported that the snapshot was ignored carries the follower's commit index, not its last index. Behind the commit index an ignored snapshot says nothing: the follower's tail may be a conflicting leftover of an older term, and a leader that takes `lastIndex` for a match counts that follower towards the quorum of entries it does not store", Run: func(c *C) {
	n := 0
	for _, fn := range c.P.allFuncs(raftPkg) {
		callsRestore := false
		for _, b := range fn.Blocks {
			for _, in := range b.Instrs {
				if ci, ok := in.(ssa.CallInstruction); ok && callName(ci) == "restore" {
					callsRestore = true
				}
			}
		}
		if !callsRestore || fn.Name() == "restore" {
			continue
		}
		of := c.orderFlow(fn, nil, true, "T|call:restore", "F|call:restore")
		ignoredAt := func(in ssa.Instruction) bool {
			states, live := of.States(in)
			if !live {
				return false
			}
			for _, st := range states {
				if st["F|call:restore"] {
					return true
				}
			}
			return false
		}
		class := func(v ssa.Value) string {
			if mentionsField(v, "committed") {
				return "committed"
			}
			last := false
			backslice(v, func(x ssa.Value) bool {
				if call, ok := x.(*ssa.Call); ok && callName(call) == "lastIndex" {
					last = true
				}
				return !last
			})
			if last {
				return "lastIndex()"
			}
			return "something else"
		}
		ord := 0
		for _, b := range fn.Blocks {
			for _, in := range b.Instrs {
				call, ok := in.(*ssa.Call)
				if !ok || callName(call) != "send" || len(call.Call.Args) < 2 {
					continue
				}
				// the message: a record built in place and loaded for the call
				u, ok := call.Call.Args[1].(*ssa.UnOp)
				if !ok {
					continue
				}
				al, ok := u.X.(*ssa.Alloc)
				if !ok || al.Referrers() == nil {
					continue
				}
				var idx ssa.Value
				isResp := false
				for _, r := range *al.Referrers() {
					fa, ok := r.(*ssa.FieldAddr)
					if !ok || fa.Referrers() == nil {
						continue
					}
					for _, rr := range *fa.Referrers() {
						st, ok := rr.(*ssa.Store)
						if !ok || st.Addr != ssa.Value(fa) {
							continue
						}
						switch fieldName(fa) {
						case "Index":
							idx = st.Val
						case "Type":
							if k, ok := constInt(st.Val); ok && k == 4 { // pb.MsgAppResp
								isResp = true
							}
						}
					}
				}
				if !isResp || idx == nil {
					continue
				}
				n++
				ord++
				var bad []string
				if phi, isPhi := idx.(*ssa.Phi); isPhi {
					for i, e := range phi.Edges {
						p := phi.Block().Preds[i]
						if ignoredAt(p.Instrs[len(p.Instrs)-1]) && class(e) != "committed" {
							bad = append(bad, "where the snapshot was ignored the index is "+class(e))
						}
					}
				} else if ignoredAt(call) && class(idx) != "committed" {
					bad = append(bad, "reachable where the snapshot was ignored with index "+class(idx))
				}
				c.Add("R16aa", fnName(fn), fmt.Sprintf("reply #%d to a snapshot acknowledges the commit index when the snapshot was ignored", ord), call.Pos(), len(bad) == 0, strings.Join(uniq(bad), "; "))
			}
		}
	}
	c.Count("R16aa_snapshot_replies", n)
	c.Min("R16aa_snapshot_replies", 2)
}}
