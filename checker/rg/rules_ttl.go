package rg

import (
	"fmt"
	"go/constant"
	"go/token"
	"go/types"
	"sort"
	"strings"

	"golang.org/x/tools/go/ssa"
)

// ttlCanon: canonical key name where a non-constant index of a slice element is generalised to [*].
// sliceBase strips sub-slicing: an element of S[a:b] is an element of S.
func sliceBase(v ssa.Value) ssa.Value {
	for {
		sl, ok := v.(*ssa.Slice)
		if !ok {
			return v
		}
		if _, isArr := sl.X.Type().Underlying().(*types.Pointer); isArr {
			return v
		}
		v = sl.X
	}
}

func ttlCanon(v ssa.Value) string {
	inner := stripConv(v)
	if u, ok := inner.(*ssa.UnOp); ok && u.Op == token.MUL {
		if ia, ok := u.X.(*ssa.IndexAddr); ok {
			if _, isConst := ia.Index.(*ssa.Const); !isConst {
				return "elem(" + canon(sliceBase(ia.X)) + ")"
			}
			// a constant index into a sub-slice S[k:][c]: not normalised (rare)
		}
	}
	if ix, ok := inner.(*ssa.Index); ok {
		if _, isConst := ix.Index.(*ssa.Const); !isConst {
			return "elem(" + canon(ix.X) + ")"
		}
	}
	return canon(v)
}

// isAppend reports a call to the append builtin and returns (slice, appended values...).
func isAppend(v ssa.Value) (*ssa.Call, bool) {
	c, ok := v.(*ssa.Call)
	if !ok {
		return nil, false
	}
	b, ok := c.Call.Value.(*ssa.Builtin)
	return c, ok && b.Name() == "append"
}

type ttlAnalysis struct {
	c        *C
	checkTTL *ssa.Function
	flows    map[*ssa.Function]*Flow
	pre      map[*ssa.Function][]int // params that must be TTL-checked by callers
}

func (t *ttlAnalysis) transfer(in ssa.Instruction, s Set) (Set, bool) {
	if noReturnCall(in) {
		return nil, true
	}
	ci, ok := in.(*ssa.Call)
	if !ok {
		return s, false
	}
	if callee(ci) == t.checkTTL && t.checkTTL != nil {
		s["T|"+ttlCanon(ci.Call.Args[1])] = true
		return s, false
	}
	if a := t.c.keyspaceAccess(ci); a != nil && a.Map == "db" && a.Method == "Set" {
		s["W|"+ttlCanon(a.Key)] = true
	}
	return s, false
}

func (t *ttlAnalysis) flow(fn *ssa.Function) *Flow {
	if f, ok := t.flows[fn]; ok {
		return f
	}
	entry := Set{}
	// closures inherit the facts at their creation site
	if par := fn.Parent(); par != nil {
		for _, b := range par.Blocks {
			for _, in := range b.Instrs {
				if mc, ok := in.(*ssa.MakeClosure); ok && mc.Fn == fn {
					if _, isGo := firstUse(mc).(*ssa.Go); isGo {
						continue
					}
					if s, ok := t.flow(par).Before(mc); ok {
						sub := map[string]string{}
						for i, bnd := range mc.Bindings {
							if al, ok := bnd.(*ssa.Alloc); ok {
								if sv := singleStore(al); sv != nil {
									sub[canon(sv)] = "*free:" + fn.FreeVars[i].Name()
								}
							}
						}
						for k := range s {
							k = applySubst(k, sub)
							entry[k] = true
						}
					}
				}
			}
		}
	}
	f := &Flow{Fn: fn, Must: true, Entry: entry, Transfer: t.transfer}
	f.Run()
	t.flows[fn] = f
	return f
}

func firstUse(v ssa.Value) ssa.Instruction {
	if v.Referrers() == nil || len(*v.Referrers()) == 0 {
		return nil
	}
	return (*v.Referrers())[0]
}

// sliceElemsChecked: every element ever appended to slice value S had a T fact at its append site.
func (t *ttlAnalysis) sliceElemsChecked(fn *ssa.Function, S ssa.Value) bool {
	seen := map[ssa.Value]bool{}
	okAll := true
	any := false
	var walk func(v ssa.Value)
	walk = func(v ssa.Value) {
		if v == nil || seen[v] || !okAll {
			return
		}
		seen[v] = true
		switch x := v.(type) {
		case *ssa.Phi:
			for _, e := range x.Edges {
				walk(e)
			}
		case *ssa.MakeSlice:
		case *ssa.Const:
		case *ssa.UnOp:
			// the list lives in a variable cell (a closure of the function captures it): whatever is ever stored into the
			// cell, here or in a closure, is a list of checked keys
			var cell *ssa.Alloc
			switch a := x.X.(type) {
			case *ssa.Alloc:
				cell = a
			case *ssa.FreeVar:
				cell = bindingCell(a)
			}
			if cell == nil || x.Op != token.MUL {
				okAll = false
				return
			}
			stores := 0
			var visitRefs func(v ssa.Value, d int)
			visitRefs = func(v ssa.Value, d int) {
				if v.Referrers() == nil || d > 2 {
					return
				}
				for _, r := range *v.Referrers() {
					switch y := r.(type) {
					case *ssa.Store:
						if y.Addr == v {
							stores++
							walk(y.Val)
						}
					case *ssa.MakeClosure:
						fnc, _ := y.Fn.(*ssa.Function)
						if fnc == nil {
							continue
						}
						for i, bnd := range y.Bindings {
							if bnd == v && i < len(fnc.FreeVars) {
								visitRefs(fnc.FreeVars[i], d+1)
							}
						}
					}
				}
			}
			visitRefs(cell, 0)
			if stores == 0 {
				okAll = false
			}
		case *ssa.Call:
			if ap, ok := isAppend(x); ok {
				walk(ap.Call.Args[0])
				// appended values: a varargs slice literal
				if elems, ok := sliceLiteralElems(ap.Call.Args[1]); ok {
					s, live := t.flow(ap.Parent()).Before(ap)
					for _, e := range elems {
						any = true
						if live && !(s["T|"+ttlCanon(e)] || s["T|"+canon(e)]) && !t.checkedAfter(ap, e) {
							okAll = false
						}
					}
				} else {
					okAll = false
				}
				return
			}
			// a key list built by a first-party helper (keys := sourceKeys(m, args, ..)): what the helper returns
			if cf := callee(x); cf != nil && firstParty(cf) && len(cf.Blocks) > 0 && cf != fn && len(seen) < 64 {
				rets := 0
				for _, b := range cf.Blocks {
					if ret, ok := b.Instrs[len(b.Instrs)-1].(*ssa.Return); ok && len(ret.Results) >= 1 {
						if _, isSl := ret.Results[0].Type().Underlying().(*types.Slice); isSl {
							rets++
							walk(ret.Results[0])
						}
					}
				}
				if rets > 0 {
					return
				}
			}
			okAll = false
		case *ssa.Slice:
			if al, isAl := x.X.(*ssa.Alloc); isAl && x.High != nil {
				if n, isC := constInt(x.High); isC && n == 0 && al.Comment == "makeslice" {
					return // make([]T, 0): no elements yet
				}
			}
			if elems, ok := sliceLiteralElems(x); ok {
				s, live := t.flow(fn).Before(x)
				for _, e := range elems {
					any = true
					if live && !s["T|"+ttlCanon(e)] {
						okAll = false
					}
				}
				return
			}
			okAll = false
		default:
			okAll = false
		}
	}
	walk(S)
	return okAll && any
}

func (t *ttlAnalysis) checked(fn *ssa.Function, at ssa.Instruction, key ssa.Value) (bool, string) {
	s, live := t.flow(fn).Before(at)
	if !live {
		return true, "unreachable"
	}
	k := ttlCanon(key)
	if s["T|"+k] {
		return true, "dominated by CheckTTL(" + k + ")"
	}
	if s["W|"+k] {
		return true, "dominated by an unconditional overwrite db.Set(" + k + ") in this call (observes its own write)"
	}
	// element of a slice whose every element was checked when it was appended
	inner := stripConv(key)
	if u, ok := inner.(*ssa.UnOp); ok {
		if ia, ok := u.X.(*ssa.IndexAddr); ok {
			if t.sliceElemsChecked(fn, sliceBase(ia.X)) {
				return true, "element of a key slice built only from CheckTTL-ed keys"
			}
		}
	}
	if u, ok := inner.(*ssa.UnOp); ok {
		if ia, ok := u.X.(*ssa.IndexAddr); ok {
			if t.coveredByRangeLoop(fn, at, sliceBase(ia.X)) {
				return true, "a preceding range loop over the whole key slice calls CheckTTL on every element"
			}
		}
	}
	// a whole key slice handed to a helper that observes its elements
	if _, isSl := key.Type().Underlying().(*types.Slice); isSl {
		if t.sliceElemsChecked(fn, sliceBase(key)) {
			return true, "a key slice built only from CheckTTL-ed keys"
		}
		if t.coveredByRangeLoop(fn, at, sliceBase(key)) {
			return true, "a preceding range loop over the whole key slice calls CheckTTL on every element"
		}
	}
	return false, "no CheckTTL on the same key dominates this observation (facts: " + strings.Join(s.Sorted(), " ") + ")"
}

func resultUsed(ci ssa.CallInstruction) bool {
	v := ci.Value()
	if v == nil || v.Referrers() == nil {
		return false
	}
	for _, r := range *v.Referrers() {
		if _, dbg := r.(*ssa.DebugRef); !dbg {
			return true
		}
	}
	return false
}

// R21: the lazy-expiry check dominates every observation of a key.
var rR21 = RuleRef{Name: "R21", Doc: "lazy expiry: every keyspace access that observes key k (Get, SetIfExist, SetIfNotExist, Delete with a used result) is dominated on every path by CheckTTL(k) on the same key (or by an unconditional overwrite of k in the same call); KEYS filters every candidate through CheckTTL", Run: func(c *C) {
	t := &ttlAnalysis{c: c, checkTTL: c.P.Func("memdb", "MemDb.CheckTTL"), flows: map[*ssa.Function]*Flow{}, pre: map[*ssa.Function][]int{}}
	if t.checkTTL == nil {
		c.Undecided("R21", "anchor (*MemDb).CheckTTL")
		return
	}
	execs := map[*ssa.Function]bool{}
	for fn := range c.Facts.ExecNames {
		execs[fn] = true
	}
	fns := c.P.allFuncs("memdb")
	type site struct {
		fn  *ssa.Function
		in  ssa.CallInstruction
		key ssa.Value
		con string
	}
	var countOnly map[*ssa.Function]map[int]bool
	var hard map[*ssa.Function][]int
	collect := func(fn *ssa.Function) []site {
		var out []site
		ord := map[string]int{}
		for _, b := range fn.Blocks {
			for _, in := range b.Instrs {
				ci, ok := in.(ssa.CallInstruction)
				if !ok {
					continue
				}
				if _, isGo := in.(*ssa.Go); isGo {
					continue
				}
				if a := c.keyspaceAccess(ci); a != nil && a.Map == "db" {
					obs := a.Method == "Get" || a.Method == "SetIfExist" || a.Method == "SetIfNotExist" || (a.Method == "Delete" && resultUsed(ci))
					if !obs {
						continue
					}
					con := "db." + a.Method + "(" + canon(a.Key) + ")"
					ord[con]++
					if ord[con] > 1 {
						con = fmt.Sprintf("%s#%d", con, ord[con])
					}
					out = append(out, site{fn, ci, a.Key, con})
					continue
				}
				// a function-typed parameter being called: the closures bound to it at the call sites of fn
				if prm, ok := ci.Common().Value.(*ssa.Parameter); ok && callee(ci) == nil {
					fab, _ := c.funcArgBindings()
					for _, g := range fab[prm] {
						for _, pi := range t.pre[g] {
							if pi < len(ci.Common().Args) {
								k := ci.Common().Args[pi]
								con := "call of the function argument " + prm.Name() + "(" + canon(k) + "), which observes its key"
								ord[con]++
								if ord[con] > 1 {
									con = fmt.Sprintf("%s#%d", con, ord[con])
								}
								out = append(out, site{fn, ci, k, con})
							}
						}
					}
				}
				if cf := callee(ci); cf != nil {
					for _, pi := range t.pre[cf] {
						if pi < len(ci.Common().Args) {
							if countOnly[cf][pi] && !resultUsed(ci) {
								continue // the helper only reports how many keys it removed, and nobody listens here
							}
							k := ci.Common().Args[pi]
							con := "call " + cf.Name() + "(" + canon(k) + ") observes its key"
							ord[con]++
							if ord[con] > 1 {
								con = fmt.Sprintf("%s#%d", con, ord[con])
							}
							out = append(out, site{fn, ci, k, con})
						}
					}
				}
			}
		}
		return out
	}
	// preconditions of helpers (key is a parameter), to fixpoint
	for iter := 0; iter < 4; iter++ {
		if countOnly == nil {
			countOnly = map[*ssa.Function]map[int]bool{}
			hard = map[*ssa.Function][]int{}
		}
		changed := false
		_, argOnly := c.funcArgBindings()
		for _, fn := range fns {
			if execs[fn] || (fn.Parent() != nil && !argOnly[fn] && !calledDirectlyOnly(fn)) || fn == t.checkTTL {
				continue
			}
			var ps []int
			seen := map[int]bool{}
			for _, s := range collect(fn) {
				if ok, _ := t.checked(fn, s.in, s.key); !ok {
					if pi := paramIndex(fn, canon(s.key)); pi >= 0 {
						// a removal whose count is only handed back (removed := db.Delete(key); return removed) observes
						// the key exactly when the caller looks at that count
						if !(deleteCountOnlyReturned(c, s.in) || (callee(s.in) != nil && countOnly[callee(s.in)][pi])) {
							hard[fn] = append(hard[fn], pi)
						}
						if !seen[pi] {
							seen[pi] = true
							ps = append(ps, pi)
						}
					}
				}
			}
			co := map[int]bool{}
			for _, pi := range ps {
				co[pi] = true
			}
			for _, pi := range hard[fn] {
				co[pi] = false
			}
			hard[fn] = nil
			countOnly[fn] = co
			if len(ps) != len(t.pre[fn]) {
				t.pre[fn] = ps
				changed = true
			}
		}
		if !changed {
			break
		}
	}
	n := 0
	for _, fn := range fns {
		if fn == t.checkTTL {
			continue
		}
		for _, s := range collect(fn) {
			ok, detail := t.checked(fn, s.in, s.key)
			_, argOnly := c.funcArgBindings()
			if !ok && !execs[fn] && (fn.Parent() == nil || argOnly[fn] || calledDirectlyOnly(fn)) && paramIndex(fn, canon(s.key)) >= 0 {
				c.Add("R21", fnName(fn), s.con, s.in.Pos(), true, "precondition on callers (checked at every call site)")
				n++
				continue
			}
			c.Add("R21", fnName(fn), s.con, s.in.Pos(), ok, detail)
			n++
		}
	}
	c.Count("R21_observation_sites", n)
	c.Min("R21_observation_sites", 80)
	// KEYS: every candidate key passes CheckTTL before it is matched/returned
	if keys := c.Facts.Executors["keys"]; keys != nil {
		pm := c.P.Func("util", "PattenMatch")
		found := 0
		for _, b := range keys.Blocks {
			for _, in := range b.Instrs {
				ci, ok := in.(*ssa.Call)
				if !ok || callee(ci) != pm || pm == nil {
					continue
				}
				found++
				s, live := t.flow(keys).Before(ci)
				k := ttlCanon(ci.Call.Args[1])
				c.Add("R21", fnName(keys), "candidate key passes CheckTTL before matching", ci.Pos(), !live || s["T|"+k], "key "+k)
			}
		}
		c.Count("R21_keys_match_sites", found)
		c.Min("R21_keys_match_sites", 1)
	} else {
		c.Undecided("R21", "executor 'keys' not registered")
	}
}}

// ---------- R22: deadline removal is paired with key removal / overwrite ----------

var overwriteCmds = []string{"set", "mset", "setex", "psetex", "getset", "rename", "sdiffstore", "sinterstore", "sunionstore"}

// condKeyword: does the branch condition depend on a flag that is set under a comparison with the given option keyword?
// flagBitTested: cond tests one constant bit of a flag word: flags&K != 0, or a first-party predicate has(flags, K)
// whose body is that test.
func flagBitTested(cond ssa.Value) (int64, bool) {
	switch x := cond.(type) {
	case *ssa.BinOp:
		if x.Op != token.NEQ && x.Op != token.EQL {
			return 0, false
		}
		for _, pair := range [][2]ssa.Value{{x.X, x.Y}, {x.Y, x.X}} {
			and, ok := pair[0].(*ssa.BinOp)
			if !ok || and.Op != token.AND {
				continue
			}
			if z, ok := constInt(pair[1]); !ok || (z != 0 && x.Op == token.NEQ) {
				continue
			}
			if k, ok := constInt(and.Y); ok && k > 0 && x.Op == token.NEQ {
				return k, true
			}
			if k, ok := constInt(and.X); ok && k > 0 && x.Op == token.NEQ {
				return k, true
			}
		}
	case *ssa.Call:
		cf := callee(x)
		if cf == nil || len(cf.Blocks) == 0 || len(x.Call.Args) != 2 || !isBoolType(x.Type()) {
			return 0, false
		}
		k, ok := constInt(x.Call.Args[1])
		if !ok || k <= 0 {
			return 0, false
		}
		// the body returns recv&arg != 0
		for _, b := range cf.Blocks {
			ret, ok := b.Instrs[len(b.Instrs)-1].(*ssa.Return)
			if !ok || len(ret.Results) != 1 {
				continue
			}
			ne, ok := ret.Results[0].(*ssa.BinOp)
			if !ok || ne.Op != token.NEQ {
				return 0, false
			}
			and, ok := ne.X.(*ssa.BinOp)
			if !ok || and.Op != token.AND {
				return 0, false
			}
			p0, p1 := ssa.Value(cf.Params[0]), ssa.Value(cf.Params[1])
			// value receivers and parameters may be spilled to a local cell first
			unspill := func(v ssa.Value) ssa.Value {
				if u, ok := v.(*ssa.UnOp); ok && u.Op == token.MUL {
					if al, ok := u.X.(*ssa.Alloc); ok {
						if sv := singleStore(al); sv != nil {
							return sv
						}
					}
				}
				return v
			}
			ax, ay := unspill(and.X), unspill(and.Y)
			if !((ax == p0 && ay == p1) || (ax == p1 && ay == p0)) {
				return 0, false
			}
			if z, ok := constInt(ne.Y); !ok || z != 0 {
				return 0, false
			}
			return k, true
		}
	}
	return 0, false
}

// keywordBits: the flag bits a package associates with an option word: the integer constants stored next to the word in
// a lookup table (map literal keyed by the word), or or-ed into a flag word under a comparison with the word.
func keywordBits(pkg *ssa.Package, kw string) map[int64]bool {
	out := map[int64]bool{}
	if pkg == nil {
		return out
	}
	var fns []*ssa.Function
	for _, m := range pkg.Members {
		if fn, ok := m.(*ssa.Function); ok {
			fns = append(fns, fn)
			fns = append(fns, fn.AnonFuncs...)
		}
	}
	for _, fn := range fns {
		for _, b := range fn.Blocks {
			for _, in := range b.Instrs {
				switch x := in.(type) {
				case *ssa.MapUpdate:
					k, ok := constString(x.Key)
					if !ok || !strings.EqualFold(k, kw) {
						continue
					}
					if v, ok := constInt(x.Value); ok {
						out[v] = true
					}
					// a record value: the integer constants stored into its fields
					if ld, ok := x.Value.(*ssa.UnOp); ok {
						if al, ok := ld.X.(*ssa.Alloc); ok && al.Referrers() != nil {
							for _, r := range *al.Referrers() {
								fa, ok := r.(*ssa.FieldAddr)
								if !ok || fa.Referrers() == nil {
									continue
								}
								for _, rr := range *fa.Referrers() {
									if st, ok := rr.(*ssa.Store); ok && st.Addr == ssa.Value(fa) {
										if v, ok := constInt(st.Val); ok && isIntType(st.Val.Type()) {
											out[v] = true
										}
									}
								}
							}
						}
					}
				case *ssa.BinOp:
					if x.Op != token.OR {
						continue
					}
					k, ok := constInt(x.Y)
					if !ok {
						continue
					}
					for d := b; d != nil; d = d.Idom() {
						if id := d.Idom(); id != nil && len(id.Instrs) > 0 {
							if iff, ok := id.Instrs[len(id.Instrs)-1].(*ssa.If); ok {
								if bo, ok := iff.Cond.(*ssa.BinOp); ok && bo.Op == token.EQL && id.Succs[0] == d {
									for _, side := range []ssa.Value{bo.X, bo.Y} {
										if s, ok := constString(side); ok && strings.EqualFold(s, kw) {
											out[k] = true
										}
									}
								}
							}
						}
					}
				}
			}
		}
	}
	return out
}

func condKeyword(cond ssa.Value, kw string) bool {
	found := false
	// the option lives in one bit of a flag word
	if k, ok := flagBitTested(cond); ok {
		if in, ok := cond.(ssa.Instruction); ok && in.Parent() != nil && in.Parent().Pkg != nil {
			if keywordBits(in.Parent().Pkg, kw)[k] {
				return true
			}
		}
	}
	// a flag variable whose address sits in a lookup table under the keyword (opts := map[string]..{"keepttl": {&keepttl, ..}})
	if u, ok := cond.(*ssa.UnOp); ok && u.Op == token.MUL {
		if cell, ok := u.X.(*ssa.Alloc); ok && cell.Referrers() != nil {
			for _, r := range *cell.Referrers() {
				st, ok := r.(*ssa.Store)
				if !ok || st.Val != ssa.Value(cell) {
					continue
				}
				var holder ssa.Value = st.Addr
				for i := 0; i < 3; i++ {
					if fa, ok := holder.(*ssa.FieldAddr); ok {
						holder = fa.X
					} else if ia, ok := holder.(*ssa.IndexAddr); ok {
						holder = ia.X
					}
				}
				tmp, ok := holder.(*ssa.Alloc)
				if !ok || tmp.Referrers() == nil {
					continue
				}
				for _, r2 := range *tmp.Referrers() {
					ld, ok := r2.(*ssa.UnOp)
					if !ok || ld.Referrers() == nil {
						continue
					}
					for _, r3 := range *ld.Referrers() {
						if mu, ok := r3.(*ssa.MapUpdate); ok && mu.Value == ssa.Value(ld) {
							if k, ok := constString(mu.Key); ok && strings.EqualFold(k, kw) {
								return true
							}
						}
					}
				}
				// the table maps the keyword to the flag's address directly (map[string]*bool)
				if mu, ok := r.(*ssa.MapUpdate); ok && mu.Value == ssa.Value(cell) {
					if k, ok := constString(mu.Key); ok && strings.EqualFold(k, kw) {
						return true
					}
				}
			}
			for _, r := range *cell.Referrers() {
				if mu, ok := r.(*ssa.MapUpdate); ok && mu.Value == ssa.Value(cell) {
					if k, ok := constString(mu.Key); ok && strings.EqualFold(k, kw) {
						return true
					}
				}
			}
		}
	}
	// a flag kept in a struct field (options parsed by a helper): some store of true into that field sits under the keyword test
	fieldOf := func(v ssa.Value) (string, string) {
		switch x := v.(type) {
		case *ssa.UnOp:
			if fa, ok := x.X.(*ssa.FieldAddr); ok {
				return namedOf(fa.X.Type()), fieldName(fa)
			}
		case *ssa.Field:
			if st, ok := x.X.Type().Underlying().(*types.Struct); ok {
				return namedOf(x.X.Type()), st.Field(x.Field).Name()
			}
		}
		return "", ""
	}
	if tn, fnm := fieldOf(cond); fnm != "" && cond.Parent() != nil && cond.Parent().Pkg != nil {
		for _, m := range cond.Parent().Pkg.Members {
			fn, ok := m.(*ssa.Function)
			if !ok {
				continue
			}
			for _, b := range fn.Blocks {
				for _, in := range b.Instrs {
					st, ok := in.(*ssa.Store)
					if !ok {
						continue
					}
					fa, ok := st.Addr.(*ssa.FieldAddr)
					if !ok || fieldName(fa) != fnm || namedOf(fa.X.Type()) != tn {
						continue
					}
					cst, ok := st.Val.(*ssa.Const)
					if !ok || cst.Value == nil || cst.Value.Kind() != constant.Bool || !constant.BoolVal(cst.Value) {
						continue
					}
					codes := keywordBits(cond.Parent().Pkg, kw)
					for d := b; d != nil; d = d.Idom() {
						if id := d.Idom(); id != nil && len(id.Instrs) > 0 {
							if iff, ok := id.Instrs[len(id.Instrs)-1].(*ssa.If); ok {
								if bo, ok := iff.Cond.(*ssa.BinOp); ok && bo.Op == token.EQL {
									for _, side := range []ssa.Value{bo.X, bo.Y} {
										if s, ok := constString(side); ok && strings.EqualFold(s, kw) && id.Succs[0] == d {
											return true
										}
										// the word was looked up in a table first: the test compares the code the table gives the keyword
										if k, ok := constInt(side); ok && codes[k] && id.Succs[0] == d {
											other := bo.X
											if side == bo.X {
												other = bo.Y
											}
											fromTable := false
											backslice(other, func(v ssa.Value) bool {
												if _, isLk := v.(*ssa.Lookup); isLk {
													fromTable = true
												}
												return !fromTable
											})
											if fromTable {
												return true
											}
										}
									}
								}
							}
						}
					}
				}
			}
		}
	}
	backslice(cond, func(v ssa.Value) bool {
		if found {
			return false
		}
		phi, ok := v.(*ssa.Phi)
		if !ok {
			_, isU := v.(*ssa.UnOp)
			_, isB := v.(*ssa.BinOp)
			return isU || isB
		}
		for i, e := range phi.Edges {
			cst, ok := e.(*ssa.Const)
			if !ok || cst.Value == nil || cst.Value.Kind() != constant.Bool || !constant.BoolVal(cst.Value) {
				continue
			}
			// the predecessor block of the true edge is reached through a comparison with the keyword
			pred := phi.Block().Preds[i]
			for d := pred; d != nil; d = d.Idom() {
				if id := d.Idom(); id != nil && len(id.Instrs) > 0 {
					if iff, ok := id.Instrs[len(id.Instrs)-1].(*ssa.If); ok {
						if bo, ok := iff.Cond.(*ssa.BinOp); ok && bo.Op == token.EQL {
							for _, side := range []ssa.Value{bo.X, bo.Y} {
								if s, ok := constString(side); ok && strings.EqualFold(s, kw) && id.Succs[0] == d {
									found = true
								}
							}
						}
					}
				}
			}
		}
		return true
	})
	return found
}

var rR22 = RuleRef{Name: "R22", Doc: "deadline removal is paired: every db.Delete(k) is accompanied on the same path by DelTTL(k)/ttlKeys.Delete(k); in the overwrite commands (SET, MSET, SETEX, RENAME destination, *STORE destination) every db.Set(k) is accompanied by DelTTL/SetTTL/ttlKeys.Delete of k unless the KEEPTTL flag's true edge was taken", Run: func(c *C) {
	setTTL, delTTL := c.P.Func("memdb", "MemDb.SetTTL"), c.P.Func("memdb", "MemDb.DelTTL")
	checkTTL := c.P.Func("memdb", "MemDb.CheckTTL")
	if setTTL == nil || delTTL == nil {
		c.Undecided("R22", "anchors SetTTL/DelTTL")
		return
	}
	overwrite := map[*ssa.Function]bool{}
	for _, n := range overwriteCmds {
		if fn := c.Facts.Executors[n]; fn != nil {
			overwrite[fn] = true
		}
	}
	nDel, nSet := 0, 0
	for _, fn := range c.P.allFuncs("memdb") {
		ow := overwrite[fn]
		has := false
		for _, b := range fn.Blocks {
			for _, in := range b.Instrs {
				if ci, ok := in.(ssa.CallInstruction); ok {
					if a := c.keyspaceAccess(ci); a != nil && a.Map == "db" && (a.Method == "Delete" || (ow && a.Method == "Set")) {
						has = true
					}
				}
			}
		}
		if !has {
			continue
		}
		tr := func(in ssa.Instruction, s Set) (Set, bool) {
			if noReturnCall(in) {
				return nil, true
			}
			ci, ok := in.(*ssa.Call)
			if !ok {
				return s, false
			}
			clear := func(k string) {
				s["TD|"+k] = true
				for f := range s {
					if strings.HasPrefix(f, "P|") && strings.HasSuffix(f, "|"+k) {
						delete(s, f)
					}
				}
			}
			if a := c.keyspaceAccess(ci); a != nil {
				k := ttlCanon(a.Key)
				switch {
				case a.Map == "ttlKeys" && a.Method == "Delete":
					clear(k)
				case a.Map == "db" && a.Method == "Delete":
					if !s["TD|"+k] {
						s["P|del@"+c.pos(ci.Pos())+"|"+k] = true
					}
				case a.Map == "db" && a.Method == "Set" && ow:
					if !s["TD|"+k] {
						s["P|set@"+c.pos(ci.Pos())+"|"+k] = true
					}
				}
				return s, false
			}
			if cf := callee(ci); cf == setTTL || cf == delTTL {
				clear(ttlCanon(ci.Call.Args[1]))
			} else if cf != nil && cf != checkTTL && firstParty(cf) {
				for _, pi := range c.ttlRemoverParams(cf) {
					if pi < len(ci.Call.Args) {
						clear(ttlCanon(ci.Call.Args[pi]))
					}
				}
				// a helper that removes the deadline of its key unless its own KEEPTTL test says otherwise: what this
				// rule accepts at a return (removed, or kept on the flag's true edge) holds behind the call
				if ow {
					for _, pi := range c.ttlRemoverUnlessKeepParams(cf) {
						if pi < len(ci.Call.Args) {
							clear(ttlCanon(ci.Call.Args[pi]))
						}
					}
				}
			}
			return s, false
		}
		edgeGen := func(from, to *ssa.BasicBlock, s Set) Set {
			cond, neg, ok := branchCond(from, to)
			if ok {
				// `if !keepttl { DelTTL }`: the edge on which keepttl is true excuses pending overwrites
				v := cond
				n := neg
				if u, isNot := v.(*ssa.UnOp); isNot && u.Op == token.NOT {
					v = u.X
					n = !n
				}
				if !n && condKeyword(v, "keepttl") {
					s["KEEP"] = true
				}
			}
			return s
		}
		// must-flow for TD facts, may-flow for pending facts: run a may-flow where TD facts are only trusted from the must-flow
		must := &Flow{Fn: fn, Must: true, Entry: Set{}, Transfer: tr, EdgeGen: edgeGen}
		must.Run()
		trMay := func(in ssa.Instruction, s Set) (Set, bool) {
			// recompute with TD facts restricted to the must solution at this point
			ms, live := must.Before(in)
			if live {
				for f := range s {
					if strings.HasPrefix(f, "TD|") && !ms[f] {
						delete(s, f)
					}
				}
			}
			return tr(in, s)
		}
		may := &Flow{Fn: fn, Must: false, Entry: Set{}, Transfer: trMay, EdgeGen: edgeGen}
		may.Run()
		pending := map[string]bool{}
		for _, b := range fn.Blocks {
			if len(b.Instrs) == 0 {
				continue
			}
			ret, ok := b.Instrs[len(b.Instrs)-1].(*ssa.Return)
			if !ok {
				continue
			}
			s, live := may.Before(ret)
			if !live {
				continue
			}
			for f := range s {
				if strings.HasPrefix(f, "P|del@") {
					pending[f] = true
				}
				if strings.HasPrefix(f, "P|set@") && !s["KEEP"] {
					pending[f] = true
				}
			}
		}
		// one obligation per delete/overwrite site
		ord := map[string]int{}
		for _, b := range fn.Blocks {
			for _, in := range b.Instrs {
				ci, ok := in.(*ssa.Call)
				if !ok {
					continue
				}
				a := c.keyspaceAccess(ci)
				if a == nil || a.Map != "db" {
					continue
				}
				kind := ""
				if a.Method == "Delete" {
					kind = "del"
					nDel++
				} else if a.Method == "Set" && ow {
					kind = "set"
					nSet++
				} else {
					continue
				}
				k := ttlCanon(a.Key)
				con := "db." + a.Method + "(" + k + ") paired with deadline removal"
				ord[con]++
				if ord[con] > 1 {
					con = fmt.Sprintf("%s#%d", con, ord[con])
				}
				bad := pending["P|"+kind+"@"+c.pos(ci.Pos())+"|"+k]
				c.Add("R22", fnName(fn), con, ci.Pos(), !bad, "some path from this call to a return passes no DelTTL/SetTTL/ttlKeys.Delete of "+k)
			}
		}
	}
	c.Count("R22_delete_sites", nDel)
	c.Count("R22_overwrite_sites", nSet)
	c.Min("R22_delete_sites", 10)
	c.Min("R22_overwrite_sites", 5)
}}

// coveredByRangeLoop: a `for _, k := range S { ... CheckTTL(k) ... }` loop that visits every element of S
// (CheckTTL dominates every back edge) and whose exit dominates `at`.
func (t *ttlAnalysis) coveredByRangeLoop(fn *ssa.Function, at ssa.Instruction, S ssa.Value) bool {
	want := canon(S)
	for _, b := range fn.Blocks {
		for _, in := range b.Instrs {
			ci, ok := in.(*ssa.Call)
			if !ok || callee(ci) != t.checkTTL {
				continue
			}
			u, ok := stripConv(ci.Call.Args[1]).(*ssa.UnOp)
			if !ok {
				continue
			}
			ia, ok := u.X.(*ssa.IndexAddr)
			if !ok || canon(ia.X) != want {
				continue
			}
			// find the loop header: nearest dominator of b with a back edge
			for h := b; h != nil; h = h.Idom() {
				var backs []*ssa.BasicBlock
				for _, p := range h.Preds {
					if h.Dominates(p) {
						backs = append(backs, p)
					}
				}
				if len(backs) == 0 {
					continue
				}
				// header condition: idx+1 < len(S) with idx starting at -1 (go/ssa range-over-slice form)
				iff, ok := h.Instrs[len(h.Instrs)-1].(*ssa.If)
				if !ok {
					break
				}
				bo, ok := iff.Cond.(*ssa.BinOp)
				if !ok || bo.Op != token.LSS || bo.X != ia.Index {
					break
				}
				ln, ok := bo.Y.(*ssa.Call)
				if !ok {
					break
				}
				if bi, ok := ln.Call.Value.(*ssa.Builtin); !ok || bi.Name() != "len" || canon(ln.Call.Args[0]) != want {
					break
				}
				inc, ok := ia.Index.(*ssa.BinOp)
				if !ok || inc.Op != token.ADD {
					break
				}
				phi, ok := inc.X.(*ssa.Phi)
				if !ok {
					break
				}
				startsAtMinus1 := false
				for i, e := range phi.Edges {
					if !h.Dominates(phi.Block().Preds[i]) {
						if n, ok := constInt(e); ok && n == -1 {
							startsAtMinus1 = true
						} else {
							startsAtMinus1 = false
							break
						}
					}
				}
				if one, ok := constInt(inc.Y); !ok || one != 1 || !startsAtMinus1 {
					break
				}
				all := true
				for _, p := range backs {
					if !b.Dominates(p) {
						all = false
					}
				}
				exit := h.Succs[1]
				if all && exit.Dominates(at.Block()) {
					return true
				}
				break
			}
		}
	}
	return false
}

// checkedAfter: every path from the append instruction to the end of the loop iteration (or the function) passes
// CheckTTL on the appended value (the independent pair "append; CheckTTL" in either order).
func (t *ttlAnalysis) checkedAfter(ap *ssa.Call, val ssa.Value) bool {
	want := ttlCanon(val)
	seen := map[*ssa.BasicBlock]bool{}
	var scan func(b *ssa.BasicBlock, start int) bool
	scan = func(b *ssa.BasicBlock, start int) bool {
		for i := start; i < len(b.Instrs); i++ {
			if call, ok := b.Instrs[i].(*ssa.Call); ok && callee(call) == t.checkTTL && ttlCanon(call.Call.Args[1]) == want {
				return true
			}
			if _, isRet := b.Instrs[i].(*ssa.Return); isRet {
				return false
			}
		}
		if len(b.Succs) == 0 {
			return false
		}
		for _, s := range b.Succs {
			if isLoopHeader(s) && s.Dominates(b) {
				return false // iteration ends without the check
			}
			if seen[s] {
				continue
			}
			seen[s] = true
			if !scan(s, 0) {
				return false
			}
		}
		return true
	}
	b := ap.Block()
	for i, in := range b.Instrs {
		if in == ssa.Instruction(ap) {
			return scan(b, i+1)
		}
	}
	return false
}

// ttlRemoverParams: parameters of a memdb helper whose deadline entry is removed (ttlKeys.Delete / DelTTL / SetTTL
// on that parameter) on every path through the helper.
// ttlRemoverUnlessKeepParams: like ttlRemoverParams, but a path may also leave the deadline alone when it lies behind the
// true edge of the KEEPTTL flag (a helper that applies the expiry options of SET after the value was written).
func (c *C) ttlRemoverUnlessKeepParams(fn *ssa.Function) []int {
	if fn == nil || fn.Blocks == nil || pkgRel(fn) != "memdb" || fn.Parent() != nil {
		return nil
	}
	if _, isExec := c.Facts.ExecNames[fn]; isExec {
		return nil
	}
	setTTL, delTTL := c.P.Func("memdb", "MemDb.SetTTL"), c.P.Func("memdb", "MemDb.DelTTL")
	if fn == setTTL || fn == delTTL {
		return nil
	}
	tr := func(in ssa.Instruction, s Set) (Set, bool) {
		if ci, ok := in.(*ssa.Call); ok {
			if a := c.keyspaceAccess(ci); a != nil && a.Map == "ttlKeys" && a.Method == "Delete" {
				s[canon(a.Key)] = true
			}
			if cf := callee(ci); cf != nil && (cf == setTTL || cf == delTTL) {
				s[canon(ci.Call.Args[1])] = true
			}
		}
		return s, false
	}
	// the KEEP fact must not be lost at joins of a must-flow: it is tracked per parameter as "removed or kept"
	edge := func(from, to *ssa.BasicBlock, s Set) Set {
		cond, neg, ok := branchCond(from, to)
		if !ok {
			return s
		}
		v, n := cond, neg
		if u, isNot := v.(*ssa.UnOp); isNot && u.Op == token.NOT {
			v, n = u.X, !n
		}
		if !n && condKeyword(v, "keepttl") {
			for i := range fn.Params {
				s[canon(fn.Params[i])] = true
			}
		}
		return s
	}
	must := &Flow{Fn: fn, Must: true, Entry: Set{}, Transfer: tr, EdgeGen: edge}
	must.Run()
	var cand map[int]bool
	removesSome := false
	for _, b := range fn.Blocks {
		for _, in := range b.Instrs {
			if ci, ok := in.(*ssa.Call); ok {
				if cf := callee(ci); cf != nil && (cf == setTTL || cf == delTTL) {
					removesSome = true
				}
			}
		}
		if len(b.Instrs) == 0 {
			continue
		}
		ret, ok := b.Instrs[len(b.Instrs)-1].(*ssa.Return)
		if !ok {
			continue
		}
		st, live := must.Before(ret)
		if !live {
			continue
		}
		here := map[int]bool{}
		for f := range st {
			if pi := paramIndex(fn, f); pi >= 0 {
				here[pi] = true
			}
		}
		if cand == nil {
			cand = here
		} else {
			for k := range cand {
				if !here[k] {
					delete(cand, k)
				}
			}
		}
	}
	if !removesSome {
		return nil
	}
	var out []int
	for k := range cand {
		if _, isStr := fn.Params[k].Type().Underlying().(*types.Basic); isStr {
			out = append(out, k)
		}
	}
	sort.Ints(out)
	return out
}

func (c *C) ttlRemoverParams(fn *ssa.Function) []int {
	if fn == nil || fn.Blocks == nil || pkgRel(fn) != "memdb" || fn.Parent() != nil {
		return nil
	}
	if _, isExec := c.Facts.ExecNames[fn]; isExec {
		return nil
	}
	setTTL, delTTL := c.P.Func("memdb", "MemDb.SetTTL"), c.P.Func("memdb", "MemDb.DelTTL")
	if fn == setTTL || fn == delTTL {
		return nil
	}
	tr := func(in ssa.Instruction, s Set) (Set, bool) {
		if ci, ok := in.(*ssa.Call); ok {
			if a := c.keyspaceAccess(ci); a != nil && a.Map == "ttlKeys" && a.Method == "Delete" {
				s[canon(a.Key)] = true
			}
			if cf := callee(ci); cf != nil && (cf == setTTL || cf == delTTL) {
				s[canon(ci.Call.Args[1])] = true
			}
		}
		return s, false
	}
	must := &Flow{Fn: fn, Must: true, Entry: Set{}, Transfer: tr}
	must.Run()
	var cand map[int]bool
	for _, b := range fn.Blocks {
		if len(b.Instrs) == 0 {
			continue
		}
		ret, ok := b.Instrs[len(b.Instrs)-1].(*ssa.Return)
		if !ok {
			continue
		}
		s, live := must.Before(ret)
		if !live {
			continue
		}
		here := map[int]bool{}
		for f := range s {
			if pi := paramIndex(fn, f); pi >= 0 {
				here[pi] = true
			}
		}
		if cand == nil {
			cand = here
		} else {
			for k := range cand {
				if !here[k] {
					delete(cand, k)
				}
			}
		}
	}
	var out []int
	for k := range cand {
		out = append(out, k)
	}
	return out
}

// deleteCountOnlyReturned: ci is db.Delete(key) and its result goes nowhere but into the function's own return value
// (directly, or added to a count that is returned).
func deleteCountOnlyReturned(c *C, ci ssa.CallInstruction) bool {
	a := c.keyspaceAccess(ci)
	if a == nil || a.Map != "db" || a.Method != "Delete" {
		return false
	}
	v, ok := ci.(ssa.Value)
	if !ok || v.Referrers() == nil {
		return false
	}
	seen := map[ssa.Value]bool{}
	var onlyRet func(v ssa.Value, d int) bool
	onlyRet = func(v ssa.Value, d int) bool {
		if seen[v] || d > 4 {
			return true
		}
		seen[v] = true
		if v.Referrers() == nil {
			return true
		}
		for _, r := range *v.Referrers() {
			switch y := r.(type) {
			case *ssa.Return, *ssa.DebugRef:
			case *ssa.BinOp:
				if y.Op != token.ADD || !onlyRet(y, d+1) {
					return false
				}
			case *ssa.Phi:
				if !onlyRet(y, d+1) {
					return false
				}
			case *ssa.Store:
				// the named result cell
				al, isAl := y.Addr.(*ssa.Alloc)
				if !isAl || al.Heap {
					return false
				}
				for _, rr := range *al.Referrers() {
					if ld, isLd := rr.(*ssa.UnOp); isLd && !onlyRet(ld, d+1) {
						return false
					}
				}
			default:
				return false
			}
		}
		return true
	}
	return onlyRet(v, 0)
}

// calledDirectlyOnly: fn is a closure with parameters whose every use is a direct call in the function that makes it
// (del := func(key string) int {...}; n += del(k)): a local helper, judged like a named one.
func calledDirectlyOnly(fn *ssa.Function) bool {
	par := fn.Parent()
	if par == nil || len(fn.Params) == 0 {
		return false
	}
	found := false
	for _, b := range par.Blocks {
		for _, in := range b.Instrs {
			mc, ok := in.(*ssa.MakeClosure)
			if !ok || mc.Fn != ssa.Value(fn) {
				continue
			}
			found = true
			if mc.Referrers() == nil {
				return false
			}
			for _, r := range *mc.Referrers() {
				switch u := r.(type) {
				case *ssa.Call:
					if u.Call.Value != ssa.Value(mc) {
						return false
					}
				case *ssa.DebugRef:
				default:
					return false
				}
			}
		}
	}
	return found
}

// bindingCell: the variable cell of the enclosing function that the free variable fv of a closure stands for.
func bindingCell(fv *ssa.FreeVar) *ssa.Alloc {
	fn := fv.Parent()
	if fn == nil || fn.Parent() == nil {
		return nil
	}
	idx := -1
	for i, f := range fn.FreeVars {
		if f == fv {
			idx = i
		}
	}
	for _, b := range fn.Parent().Blocks {
		for _, in := range b.Instrs {
			if mc, ok := in.(*ssa.MakeClosure); ok && mc.Fn == ssa.Value(fn) && idx >= 0 && idx < len(mc.Bindings) {
				if al, ok := mc.Bindings[idx].(*ssa.Alloc); ok {
					return al
				}
				if fv2, ok := mc.Bindings[idx].(*ssa.FreeVar); ok {
					return bindingCell(fv2)
				}
			}
		}
	}
	return nil
}
