package rg

import (
	"fmt"
	"go/token"
	"go/types"
	"sort"
	"strings"

	"golang.org/x/tools/go/ssa"
)

// Rules added after the third round of seeded changes (see DESIGN.md 7.8). As before: structural necessary conditions,
// located by what the code does, never by text or position.

// R30: the dynamic types stored in the keyspace.
var rR30 = RuleRef{Name: "R30", Doc: "keyspace value types: every value handed to db.Set / SetIfExist / SetIfNotExist has one of the dynamic types the executors test for ([]byte for strings, *List, *Hash, *Set, *SortedSet, *Stream); a value of any other type (a Go string, say) is reported as WRONGTYPE by every reader, TYPE included", Run: func(c *C) {
	allowed := map[string]bool{"[]byte": true}
	n := 0
	for _, fn := range c.P.allFuncs("memdb") {
		ord := 0
		for _, b := range fn.Blocks {
			for _, in := range b.Instrs {
				ci, ok := in.(ssa.CallInstruction)
				if !ok {
					continue
				}
				a := c.keyspaceAccess(ci)
				if a == nil || a.Map != "db" || !a.Write || len(ci.Common().Args) < 3 {
					continue
				}
				v := ci.Common().Args[2]
				n++
				ord++
				var bad []string
				seen := map[ssa.Value]bool{}
				var walk func(v ssa.Value)
				walk = func(v ssa.Value) {
					if seen[v] {
						return
					}
					seen[v] = true
					switch x := v.(type) {
					case *ssa.MakeInterface:
						t := x.X.Type()
						if _, isCont := c.containerType(t); isCont || allowed[t.String()] {
							return
						}
						bad = append(bad, t.String())
					case *ssa.Phi:
						for _, e := range x.Edges {
							walk(e)
						}
					case *ssa.ChangeInterface:
						walk(x.X)
					case *ssa.Extract:
						// a value read back from the keyspace (RENAME moves whatever was stored)
					case *ssa.Parameter:
						// helper storing what it was given: judged at the helper's call sites (none in this repo stores a parameter of another type)
					case *ssa.Const:
						if !x.IsNil() {
							bad = append(bad, "constant "+x.Type().String())
						}
					}
				}
				walk(v)
				sort.Strings(bad)
				c.Add("R30", fnName(fn), fmt.Sprintf("value stored by db.%s (#%d) has a keyspace type", a.Method, ord), in.Pos(), len(bad) == 0, "stored dynamic type(s) "+strings.Join(bad, ", ")+" are not among []byte, *List, *Hash, *Set, *SortedSet, *Stream")
			}
		}
	}
	c.Count("R30_keyspace_stores", n)
	c.Min("R30_keyspace_stores", 20)
}}

// R11c: when the parser may close the channel it feeds.
var rR11c = RuleRef{Name: "R11c", Doc: "the request parser closes its result channel only after it sent the end-of-stream report or when its context is done: the connection handlers receive from that channel without the comma-ok form and dereference what they get, so a close on any other path (a truncated bulk, a protocol error) makes them dereference nil", Run: func(c *C) {
	parse := c.P.Func("resp", "parse")
	if parse == nil {
		c.Undecided("R11c", "anchor resp.parse")
		return
	}
	// do the handlers rely on it? (a receive without comma-ok whose result is dereferenced without a nil test)
	relies := false
	for _, h := range c.connHandlers() {
		for _, fn := range append([]*ssa.Function{h}, h.AnonFuncs...) {
			for _, b := range fn.Blocks {
				for _, in := range b.Instrs {
					if sel, ok := in.(*ssa.Select); ok {
						for _, st := range sel.States {
							if st.Dir == types.RecvOnly && strings.Contains(st.Chan.Type().String(), "ParsedRes") {
								relies = true
							}
						}
					}
					if u, ok := in.(*ssa.UnOp); ok && u.Op == token.ARROW && !u.CommaOk && strings.Contains(u.X.Type().String(), "ParsedRes") {
						relies = true
					}
				}
			}
		}
	}
	n := 0
	seenFn := map[*ssa.Function]bool{}
	for _, fn := range append([]*ssa.Function{parse}, helperScope(parse, 2)...) {
		if (fn != parse && pkgRel(fn) != "resp") || seenFn[fn] {
			continue
		}
		seenFn[fn] = true
		of := c.orderFlow(fn, nil, true, "SEND", "ERR|Err")
		for _, b := range fn.Blocks {
			for _, in := range b.Instrs {
				call, ok := in.(*ssa.Call)
				if !ok {
					continue
				}
				bi, ok := call.Call.Value.(*ssa.Builtin)
				if !ok || bi.Name() != "close" || !strings.Contains(call.Call.Args[0].Type().String(), "ParsedRes") {
					continue
				}
				n++
				states, live := of.States(in)
				good := live
				for _, st := range states {
					if !st["SEND"] && !st["ERR|Err"] {
						good = false
					}
				}
				c.Add("R11c", fnName(fn), fmt.Sprintf("close #%d of the result channel follows the end-of-stream report or a done context", n), in.Pos(), good || !relies, "a path closes the channel with the context still live and nothing sent: the handler's receive yields nil")
			}
		}
	}
	c.Count("R11c_channel_closes", n)
	c.Min("R11c_channel_closes", 1)
}}

// R23p: one proposal per command.
var rR23p = RuleRef{Name: "R23p", Doc: "exactly-once proposal: in the cluster connection handler (and the helpers it delegates to) the send of a RaftProposal on the proposal channel is not inside any loop other than the per-connection command loop; a retry loop around the send puts the same command into the log more than once, and every log entry is executed by the apply loop", Run: func(c *C) {
	var hc *ssa.Function
	for _, h := range c.connHandlers() {
		if sendsProposal(h) {
			hc = h
		}
	}
	if hc == nil {
		c.Undecided("R23p", "the cluster connection handler (the one that sends RaftProposals)")
		return
	}
	n := 0
	for _, fn := range helperScope(hc, 2) {
		loops := naturalLoops(fn)
		for _, b := range fn.Blocks {
			for _, in := range b.Instrs {
				isSend := false
				switch x := in.(type) {
				case *ssa.Send:
					isSend = strings.Contains(x.Chan.Type().String(), "RaftProposal")
				case *ssa.Select:
					for _, st := range x.States {
						if st.Dir == types.SendOnly && strings.Contains(st.Chan.Type().String(), "RaftProposal") {
							isSend = true
						}
					}
				}
				if !isSend {
					continue
				}
				n++
				depth := 0
				for _, body := range loops {
					if body[b] {
						depth++
					}
				}
				limit := 0
				if fn == hc {
					limit = 1 // the command loop of the connection
				}
				c.Add("R23p", fnName(fn), fmt.Sprintf("proposal send #%d is issued once per command", n), in.Pos(), depth <= limit, fmt.Sprintf("the send sits inside %d nested loop(s); only the per-connection command loop may contain it", depth))
			}
		}
	}
	c.Count("R23p_proposal_sends", n)
	c.Min("R23p_proposal_sends", 1)
}}

// R16x: restart uses what is on disk, all of it, and only what the log vouches for.
var rR16x = RuleRef{Name: "R16x", Doc: "restart: the function that replays the WAL hands the entries ReadAll returned to the storage as they are (no filtering by the persisted commit index: a follower's tail may hold entries the leader already counted as acknowledged); the snapshot used at restart is chosen among those the WAL vouches for (wal.ValidSnapshotEntries feeding Snapshotter.LoadNewestAvailable), never the plain newest file; the proposal codec is encoding/json on both sides", Run: func(c *C) {
	// (a) replay: the storage Append whose argument comes from ReadAll gets those entries as they are
	nApp := 0
	liveFns := map[*ssa.Function]bool{}
	if nr := c.P.Func("raftexample", "NewRaftNode"); nr != nil {
		liveFns = c.reachableFirstParty([]*ssa.Function{nr})
	}
	for _, fn := range c.P.allFuncs("raftexample") {
		if !liveFns[fn] {
			continue
		}
		for _, b := range fn.Blocks {
			for _, in := range b.Instrs {
				call, ok := in.(*ssa.Call)
				if !ok || callName(call) != "Append" || len(call.Call.Args) < 2 {
					continue
				}
				if !strings.Contains(call.Call.Args[len(call.Call.Args)-1].Type().String(), "raftpb.Entry") {
					continue
				}
				bad := ""
				sawReadAll, sawReady := false, false
				seen := map[ssa.Value]bool{}
				var walk func(v ssa.Value, d int)
				walk = func(v ssa.Value, d int) {
					if v == nil || seen[v] || d > 14 {
						return
					}
					seen[v] = true
					switch x := v.(type) {
					case *ssa.Phi:
						for _, e := range x.Edges {
							walk(e, d+1)
						}
					case *ssa.Extract:
						walk(x.Tuple, d+1)
					case *ssa.Field:
						if strings.Contains(x.X.Type().String(), "Ready") {
							sawReady = true
							return
						}
						walk(x.X, d+1) // a field of a result struct of a helper
					case *ssa.FieldAddr:
						if strings.Contains(x.X.Type().String(), "Ready") {
							sawReady = true
							return
						}
						// a field of a local result record: what was stored into it
						for _, r := range *x.Referrers() {
							if st, ok := r.(*ssa.Store); ok && st.Addr == ssa.Value(x) {
								walk(st.Val, d+1)
							}
						}
						// the record variable as a whole was assigned the result of a helper
						if al, ok := x.X.(*ssa.Alloc); ok && al.Referrers() != nil {
							for _, r := range *al.Referrers() {
								if st, ok := r.(*ssa.Store); ok && st.Addr == ssa.Value(al) {
									walk(st.Val, d+1)
								}
							}
						}
						walk(x.X, d+1)
					case *ssa.Call:
						if n := callName(x); n == "ReadAll" {
							sawReadAll = true
							return
						} else if cf := callee(x); cf != nil && firstParty(cf) && cf.Blocks != nil {
							// a helper that returns what ReadAll returned (possibly inside a result struct)
							for _, hb := range cf.Blocks {
								for _, hi := range hb.Instrs {
									if ret, ok := hi.(*ssa.Return); ok {
										for _, alts := range retResults(ret) {
											for _, rv := range alts {
												ts := rv.Type().String()
												if strings.Contains(ts, "raftpb.Entry") || !strings.Contains(ts, "error") && strings.Contains(ts, "raftexample.") {
													walk(rv, d+1)
												}
											}
										}
									}
									// fields of result records filled in the helper
									if st, ok := hi.(*ssa.Store); ok && strings.Contains(st.Val.Type().String(), "raftpb.Entry") {
										if _, isFA := st.Addr.(*ssa.FieldAddr); isFA {
											walk(st.Val, d+1)
										}
									}
								}
							}
							return
						} else {
							bad = "the entries pass through " + n
						}
					case *ssa.Slice:
						bad = "the entries are sub-sliced before they are appended (" + canon(x) + ")"
					case *ssa.UnOp:
						if x.Op == token.MUL {
							switch a := x.X.(type) {
							case *ssa.Alloc:
								for _, r := range *a.Referrers() {
									if st, ok := r.(*ssa.Store); ok && st.Addr == ssa.Value(a) {
										walk(st.Val, d+1)
									}
									// a record built field by field: the entry-typed fields
									if fa, ok := r.(*ssa.FieldAddr); ok && fa.Referrers() != nil {
										for _, rr := range *fa.Referrers() {
											if st, ok := rr.(*ssa.Store); ok && st.Addr == ssa.Value(fa) && strings.Contains(st.Val.Type().String(), "raftpb.Entry") {
												walk(st.Val, d+1)
											}
										}
									}
								}
							case *ssa.FieldAddr:
								walk(a, d+1)
							}
						}
					case *ssa.Const, *ssa.Alloc, *ssa.Parameter:
					default:
					}
				}
				walk(call.Call.Args[len(call.Call.Args)-1], 0)
				if sawReady && !sawReadAll {
					continue // the Ready loop's append of new entries
				}
				nApp++
				if !sawReadAll && bad == "" {
					bad = "the appended entries do not come from ReadAll"
				}
				c.Add("R16x", fnName(fn), "the storage is given every entry read from the WAL", call.Pos(), bad == "", bad)
			}
		}
	}
	c.Count("R16x_replay_appends", nApp)
	c.Min("R16x_replay_appends", 1)
	// (b) snapshot choice (in the code the node actually runs: the example key-value store of etcd is not wired in)
	nLoad := 0
	live := map[*ssa.Function]bool{}
	if nr := c.P.Func("raftexample", "NewRaftNode"); nr != nil {
		live = c.reachableFirstParty([]*ssa.Function{nr})
	} else {
		c.Undecided("R16x", "anchor raftexample.NewRaftNode")
	}
	for _, fn := range c.P.allFuncs("raftexample") {
		if !live[fn] {
			continue
		}
		for _, b := range fn.Blocks {
			for _, in := range b.Instrs {
				call, ok := in.(*ssa.Call)
				if !ok {
					continue
				}
				cf := callee(call)
				if cf == nil || cf.Signature.Recv() == nil || namedOf(cf.Signature.Recv().Type()) != "Snapshotter" {
					continue
				}
				switch cf.Name() {
				case "Load", "LoadNewestAvailable":
				default:
					continue
				}
				nLoad++
				good, why := false, "Snapshotter.Load picks the newest file on disk, whether or not the WAL recorded it at or below its last commit"
				if cf.Name() == "LoadNewestAvailable" {
					why = "the candidate list does not come from wal.ValidSnapshotEntries"
					backslice(call.Call.Args[len(call.Call.Args)-1], func(v ssa.Value) bool {
						if c2, ok := v.(*ssa.Call); ok {
							if callName(c2) == "ValidSnapshotEntries" {
								good = true
							}
							return false
						}
						return true
					})
				}
				c.Add("R16x", fnName(fn), "the restart snapshot is one the WAL vouches for", call.Pos(), good, why)
			}
		}
	}
	c.Count("R16x_snapshot_loads", nLoad)
	c.Min("R16x_snapshot_loads", 1)
	// (c) codec agreement
	enc, dec := map[string]bool{}, map[string]bool{}
	codecPkg := func(cf *ssa.Function) string {
		if cf == nil || cf.Pkg == nil {
			if cf != nil && cf.Signature.Recv() != nil {
				if n, ok := derefNamed(cf.Signature.Recv().Type()); ok && n.Obj().Pkg() != nil {
					return n.Obj().Pkg().Path()
				}
			}
			return ""
		}
		return cf.Pkg.Pkg.Path()
	}
	if tb := c.P.Func("raftexample", "RaftProposal.ToBytes"); tb != nil {
		for _, fn := range helperScope(tb, 1) {
			for _, b := range fn.Blocks {
				for _, in := range b.Instrs {
					if call, ok := in.(*ssa.Call); ok {
						if p := codecPkg(call.Call.StaticCallee()); strings.HasPrefix(p, "encoding/") {
							enc[p] = true
						}
					}
				}
			}
		}
	} else {
		c.Undecided("R16x", "anchor (*RaftProposal).ToBytes")
	}
	for _, fn := range c.P.allFuncs("raftexample") {
		mentions := false
		for _, b := range fn.Blocks {
			for _, in := range b.Instrs {
				if al, ok := in.(*ssa.Alloc); ok && namedOf(al.Type()) == "RaftProposal" {
					mentions = true
				}
			}
		}
		if !mentions || strings.HasSuffix(fn.Name(), "ToBytes") {
			continue
		}
		for _, b := range fn.Blocks {
			for _, in := range b.Instrs {
				if call, ok := in.(*ssa.Call); ok {
					if p := codecPkg(call.Call.StaticCallee()); strings.HasPrefix(p, "encoding/") {
						dec[p] = true
					}
				}
			}
		}
	}
	keys := func(m map[string]bool) string {
		var ks []string
		for k := range m {
			ks = append(ks, k)
		}
		sort.Strings(ks)
		return strings.Join(ks, ",")
	}
	okCodec := len(enc) == 1 && enc["encoding/json"] && len(dec) == 1 && dec["encoding/json"]
	c.Add("R16x", "raftexample", "proposals are encoded and decoded with encoding/json", token.NoPos, okCodec, "encoder packages: "+keys(enc)+"; decoder packages: "+keys(dec)+" (encoding/json keeps an empty []byte argument distinct from a missing one; gob does not)")
}}

// R9v: values held inside containers are immutable too.
var rR9v = RuleRef{Name: "R9v", Doc: "stored container values are immutable: a []byte read out of a hash (map lookup on a container's table) or a list node (ListNode.Val) is never used as the destination of a write — no element store, no copy() into it, no append/strconv.Append* onto a re-slice of it; readers hand these slices to replies that are serialised after the key lock was released", Run: func(c *C) {
	fromContainer := func(v ssa.Value) string {
		res := ""
		seen := map[ssa.Value]bool{}
		var walk func(v ssa.Value, d int)
		walk = func(v ssa.Value, d int) {
			if v == nil || seen[v] || d > 10 || res != "" {
				return
			}
			seen[v] = true
			switch x := v.(type) {
			case *ssa.Slice:
				walk(x.X, d+1)
			case *ssa.Phi:
				for _, e := range x.Edges {
					walk(e, d+1)
				}
			case *ssa.Extract:
				walk(x.Tuple, d+1)
			case *ssa.Lookup:
				if _, isMap := x.X.Type().Underlying().(*types.Map); isMap {
					if u, ok := x.X.(*ssa.UnOp); ok {
						if fa, ok := u.X.(*ssa.FieldAddr); ok {
							if _, isCont := c.containerType(fa.X.Type()); isCont {
								res = "an element of " + namedOf(fa.X.Type()) + "." + fieldName(fa)
							}
						}
					}
				}
			case *ssa.UnOp:
				if fa, ok := x.X.(*ssa.FieldAddr); ok && x.Op == token.MUL && namedOf(fa.X.Type()) == "ListNode" && fieldName(fa) == "Val" {
					res = "ListNode.Val"
				}
			case *ssa.Call:
				// a getter of a container that returns such an element
				if cf := callee(x); cf != nil && cf.Signature.Recv() != nil && cf.Blocks != nil {
					if _, isCont := c.containerType(cf.Signature.Recv().Type()); isCont && d < 6 {
						for _, b := range cf.Blocks {
							for _, in := range b.Instrs {
								if ret, ok := in.(*ssa.Return); ok {
									for _, alts := range retResults(ret) {
										for _, rv := range alts {
											if rv.Type().String() == "[]byte" {
												walk(rv, d+1)
											}
										}
									}
								}
							}
						}
					}
				}
			}
		}
		walk(v, 0)
		return res
	}
	n := 0
	for _, fn := range c.P.allFuncs("memdb") {
		ord := 0
		for _, b := range fn.Blocks {
			for _, in := range b.Instrs {
				var dst ssa.Value
				what := ""
				switch x := in.(type) {
				case *ssa.Store:
					if ia, ok := x.Addr.(*ssa.IndexAddr); ok {
						dst, what = ia.X, "element store"
					}
				case *ssa.Call:
					if bi, ok := x.Call.Value.(*ssa.Builtin); ok {
						switch bi.Name() {
						case "copy":
							dst, what = x.Call.Args[0], "copy destination"
						case "append":
							// appending onto a re-slice that keeps the backing array (x[:k]) overwrites it in place
							if sl, ok := x.Call.Args[0].(*ssa.Slice); ok {
								dst, what = sl, "append onto a re-slice"
							}
						}
					} else if cf := x.Call.StaticCallee(); cf != nil && cf.Pkg != nil && cf.Pkg.Pkg.Path() == "strconv" && strings.HasPrefix(cf.Name(), "Append") && len(x.Call.Args) > 0 {
						if sl, ok := x.Call.Args[0].(*ssa.Slice); ok {
							dst, what = sl, "strconv."+cf.Name()+" onto a re-slice"
						}
					}
				}
				if dst == nil || dst.Type().String() != "[]byte" {
					continue
				}
				n++
				ord++
				src := fromContainer(dst)
				c.Add("R9v", fnName(fn), fmt.Sprintf("byte-slice write #%d (%s) does not go into a value held by a container", ord, what), in.Pos(), src == "", "the destination is "+src+": the bytes a reader already put into its reply change under its hands")
			}
		}
	}
	c.Count("R9v_byte_slice_writes", n)
	c.Min("R9v_byte_slice_writes", 3)
}}

// R16h: raft core, second list of pinned mechanisms.
var rR16h = RuleRef{Name: "R16h", Doc: "Raft core guards, second list: a follower's Match is advanced from a message only when that message is the follower's own append response (a local report that a snapshot was *sent* is not an acknowledgement); RawNode.prevHardSt is written where a Ready is accepted (and at construction), not in Advance, so that a vote or term change made between Ready and Advance is still emitted and persisted", Run: func(c *C) {
	// MsgAppResp == 4 in raftpb; the update may sit in stepLeader itself or in a helper it hands the message to
	c.checkOrder("R16h", []ordOb{{Pkg: raftPkg, Fn: "stepLeader", At: "call:MaybeUpdate", AllEdges: true, NeedAll: []string{"T|cmp:4==Type"},
		What: "Progress.MaybeUpdate is reached only for MsgAppResp (Match is what the leader commits and advertises from: it may only grow on the follower's own acknowledgement)"}})
	got := c.fieldWriters(raftPkg, "RawNode", "prevHardSt")
	allowed := map[string]bool{"NewRawNode": true, "RawNode.acceptReady": true, "RawNode.Bootstrap": true}
	var extra []string
	for _, g := range got {
		if !allowed[g] {
			extra = append(extra, g)
		}
	}
	hasAccept := false
	for _, g := range got {
		if g == "RawNode.acceptReady" {
			hasAccept = true
		}
	}
	c.Add("R16h", "raft", "RawNode.prevHardSt is written when a Ready is accepted, nowhere later", token.NoPos, len(extra) == 0 && hasAccept, fmt.Sprintf("writers found: %v; not reviewed: %v", got, extra))
}}

// R16t: every WAL scanner tolerates a torn tail.
var rR16t = RuleRef{Name: "R16t", Doc: "sibling agreement of the WAL scanners: every function of the wal package that runs the record decoder in a loop and then inspects the error it stopped on (ReadAll, ValidSnapshotEntries, Verify) compares that error with io.ErrUnexpectedEOF, the decoder's report for a torn final record; a scanner that only knows io.EOF turns a repairable tail into a fatal error before the repair can run", Run: func(c *C) {
	n := 0
	for _, fn := range c.P.allFuncs(walPkg) {
		if fn.Blocks == nil || fn.Parent() != nil {
			continue
		}
		decodes, cmpEOF, cmpUEOF := false, false, false
		// the function itself and the error classifiers it calls (first-party predicates over an error value)
		bodies := []*ssa.Function{fn}
		for _, b := range fn.Blocks {
			for _, in := range b.Instrs {
				if call, ok := in.(*ssa.Call); ok {
					if cf := callee(call); cf != nil && cf.Pkg == fn.Pkg && cf.Blocks != nil && cf != fn && cf.Signature.Results().Len() == 1 && isBoolType(cf.Signature.Results().At(0).Type()) {
						for _, p := range cf.Params {
							if isErrorType(p.Type()) {
								bodies = append(bodies, cf)
								break
							}
						}
					}
				}
			}
		}
		for _, b := range fn.Blocks {
			for _, in := range b.Instrs {
				if call, ok := in.(*ssa.Call); ok && callName(call) == "decode" {
					if cf := callee(call); cf != nil && cf.Signature.Recv() != nil && namedOf(cf.Signature.Recv().Type()) == "decoder" {
						decodes = true
					}
				}
			}
		}
		for _, body := range bodies {
			for _, b := range body.Blocks {
				for _, in := range b.Instrs {
					bo, ok := in.(*ssa.BinOp)
					if !ok || (bo.Op != token.EQL && bo.Op != token.NEQ) {
						continue
					}
					for _, side := range []ssa.Value{bo.X, bo.Y} {
						if u, ok := side.(*ssa.UnOp); ok {
							if g, ok := u.X.(*ssa.Global); ok && g.Pkg != nil && g.Pkg.Pkg.Path() == "io" {
								switch g.Name() {
								case "EOF":
									cmpEOF = true
								case "ErrUnexpectedEOF":
									cmpUEOF = true
								}
							}
						}
					}
					// errors.Is(err, io.X)
				}
			}
		}
		for _, body := range bodies {
			for _, b := range body.Blocks {
				for _, in := range b.Instrs {
					if call, ok := in.(*ssa.Call); ok {
						if cf := call.Call.StaticCallee(); cf != nil && cf.Pkg != nil && cf.Pkg.Pkg.Path() == "errors" && cf.Name() == "Is" && len(call.Call.Args) == 2 {
							if u, ok := call.Call.Args[1].(*ssa.UnOp); ok {
								if g, ok := u.X.(*ssa.Global); ok && g.Pkg != nil && g.Pkg.Pkg.Path() == "io" {
									switch g.Name() {
									case "EOF":
										cmpEOF = true
									case "ErrUnexpectedEOF":
										cmpUEOF = true
									}
								}
							}
						}
					}
				}
			}
		}
		if !decodes || !cmpEOF {
			continue
		}
		n++
		c.Add("R16t", fnName(fn), "the scanner recognises the decoder's torn-tail report", fn.Pos(), cmpUEOF, "the error the decode loop stopped on is compared with io.EOF only; io.ErrUnexpectedEOF (a torn final record) does not wrap io.EOF")
	}
	c.Count("R16t_wal_scanners", n)
	c.Min("R16t_wal_scanners", 3)
}}

// R17b: the glob matcher works on bytes.
var rR17b = RuleRef{Name: "R17b", Doc: "the glob matcher is byte-wise: util.PattenMatch and the helpers it calls use nothing that decodes or maps runes (unicode, unicode/utf8, regexp, path; of strings/bytes the case-mapping, rune-searching and *Func functions, and cutset functions unless the cutset is a constant of ASCII characters): '?' and a set consume exactly one byte, whatever the bytes are", Run: func(c *C) {
	pm := c.P.Func("util", "PattenMatch")
	if pm == nil {
		c.Undecided("R17b", "anchor util.PattenMatch")
		return
	}
	var bad []string
	n := 0
	for _, fn := range helperScope(pm, 3) {
		if pkgRel(fn) != "util" {
			continue
		}
		n++
		for _, b := range fn.Blocks {
			for _, in := range b.Instrs {
				call, ok := in.(*ssa.Call)
				if !ok {
					continue
				}
				cf := call.Call.StaticCallee()
				if cf == nil || cf.Pkg == nil {
					continue
				}
				switch cf.Pkg.Pkg.Path() {
				case "unicode/utf8", "unicode", "regexp", "path", "path/filepath":
					bad = append(bad, c.pos(call.Pos())+": "+cf.String())
				case "strings", "bytes":
					// these packages also hold plain byte-sequence functions (Count, Index, HasPrefix, TrimLeft with an
					// ASCII cutset ...): only the ones that decode or map runes make the matcher text-aware
					switch cf.Name() {
					case "ToLower", "ToUpper", "ToTitle", "Title", "EqualFold", "Map", "IndexRune", "ContainsRune", "IndexFunc", "LastIndexFunc",
						"TrimFunc", "TrimLeftFunc", "TrimRightFunc", "FieldsFunc", "Fields", "ToValidUTF8", "Runes", "ToLowerSpecial", "ToUpperSpecial", "ContainsFunc":
						bad = append(bad, c.pos(call.Pos())+": "+cf.String())
					case "Trim", "TrimLeft", "TrimRight", "IndexAny", "LastIndexAny", "ContainsAny":
						// a cutset is a set of runes: byte-wise only when it is a constant of ASCII characters
						ascii := false
						if len(call.Call.Args) == 2 {
							if k, ok := constString(call.Call.Args[1]); ok {
								ascii = true
								for i := 0; i < len(k); i++ {
									if k[i] >= 0x80 {
										ascii = false
									}
								}
							}
						}
						if !ascii {
							bad = append(bad, c.pos(call.Pos())+": "+cf.String()+" with a cutset that is not a constant of ASCII characters")
						}
					}
				}
			}
		}
	}
	c.Add("R17b", fnName(pm), "the matcher and its helpers call no text library", pm.Pos(), len(bad) == 0, strings.Join(bad, "; "))
	c.Count("R17b_matcher_functions", n)
}}

// R8w: a client connection is written with Write, whole messages at a time.
var rR8w = RuleRef{Name: "R8w", Doc: "one message, one Write: a client connection (net.Conn) is never handed to anything as an io.Writer (bufio.Writer, io.Copy, WriteTo, fmt.Fprint...): publishers and the connection's own handler write to the same socket from different goroutines, and only the single Write per message keeps their frames from interleaving", Run: func(c *C) {
	n := 0
	var bad []string
	isWriterIface := func(t types.Type) bool {
		it, ok := t.Underlying().(*types.Interface)
		if !ok || isNetConn(t) {
			return false
		}
		for i := 0; i < it.NumMethods(); i++ {
			if it.Method(i).Name() == "Write" {
				return true
			}
		}
		return false
	}
	for _, fn := range c.P.allFuncs("server", "memdb", "resp") {
		for _, b := range fn.Blocks {
			for _, in := range b.Instrs {
				switch x := in.(type) {
				case *ssa.ChangeInterface:
					if isNetConn(x.X.Type()) && isWriterIface(x.Type()) {
						bad = append(bad, c.pos(x.Pos())+" in "+fnName(fn)+": net.Conn converted to "+x.Type().String())
					}
				case ssa.CallInstruction:
					cc := x.Common()
					if cc.IsInvoke() && isNetConn(cc.Value.Type()) && cc.Method.Name() == "Write" {
						n++
					}
				}
			}
		}
	}
	c.Add("R8w", "first-party", "client connections are written with Write only, never wrapped as an io.Writer", token.NoPos, len(bad) == 0, strings.Join(bad, "; "))
	c.Count("R8w_direct_conn_writes", n)
	c.Min("R8w_direct_conn_writes", 3)
}}

// R20i: a connection's state starts from the default database.
var rR20i = RuleRef{Name: "R20i", Doc: "a connection's selection starts at the default database and is reset nowhere else: every path of the function that creates a connection state stores its db field before returning it (a recycled state would carry the selection of a closed connection into a new one); Select stores the field only after both range tests (R20s)", Run: func(c *C) {
	cs := c.P.NamedType("server", "connState")
	if cs == nil {
		c.Undecided("R20i", "anchor server.connState")
		return
	}
	n := 0
	for _, fn := range c.P.allFuncs("server") {
		r := fn.Signature.Results()
		if r.Len() != 1 || namedOf(r.At(0).Type()) != "connState" || fn.Blocks == nil {
			continue
		}
		n++
		// every returned state is a fresh allocation whose db field is stored on the way
		of := c.orderFlow(fn, nil, true, "W|db")
		good, why := true, ""
		for _, b := range fn.Blocks {
			for _, in := range b.Instrs {
				ret, ok := in.(*ssa.Return)
				if !ok {
					continue
				}
				for _, rv := range retResults(ret)[0] {
					fresh := true
					backslice(rv, func(v ssa.Value) bool {
						switch x := v.(type) {
						case *ssa.Alloc, *ssa.Phi:
							return true
						case *ssa.Call, *ssa.TypeAssert, *ssa.Extract, *ssa.UnOp:
							_ = x
							fresh = false
							return false
						}
						return true
					})
					states, live := of.States(ret)
					stored := live
					for _, st := range states {
						if !st["W|db"] {
							stored = false
						}
					}
					if !fresh && !stored {
						good, why = false, "a state that was not allocated here is returned without its db field being set"
					}
					if fresh && !stored {
						good, why = false, "the new state is returned without a database"
					}
				}
			}
		}
		c.Add("R20i", fnName(fn), "every connection state handed out has its database set on the way", fn.Pos(), good, why)
	}
	c.Count("R20i_state_constructors", n)
	c.Min("R20i_state_constructors", 1)
}}

// R22d: the contract of the deadline remover that R22 trusts.
var rR22d = RuleRef{Name: "R22d", Doc: "contract of DelTTL, which the delete-when-empty sites of every container type rely on (R22): every return either has removed the ttlKeys entry of the key or lies on the not-found edge of a ttlKeys lookup of that key; no other early return (the key is usually already gone from db when DelTTL is called)", Run: func(c *C) {
	fn := c.P.Func("memdb", "MemDb.DelTTL")
	if fn == nil {
		c.Undecided("R22d", "anchor (*MemDb).DelTTL")
		return
	}
	bad, n := c.ttlGoneAtReturns(fn, 0)
	c.Add("R22d", fnName(fn), "every return has removed the deadline entry or found none", fn.Pos(), len(bad) == 0 && n > 0, "returns that may leave the entry behind: "+strings.Join(bad, ", "))
}}

// ttlGoneAtReturns: the returns of fn at which the ttlKeys entry of a key parameter may still be there: a return is fine
// when it follows ttlKeys.Delete of the key, a helper that removes it on all paths, a helper with this very contract, or
// lies on the not-found edge of a ttlKeys lookup of the key. n is the number of live returns.
func (c *C) ttlGoneAtReturns(fn *ssa.Function, depth int) (bad []string, n int) {
	tr := func(in ssa.Instruction, s Set) (Set, bool) {
		if noReturnCall(in) {
			return nil, true
		}
		if ci, ok := in.(*ssa.Call); ok {
			if a := c.keyspaceAccess(ci); a != nil && a.Map == "ttlKeys" && a.Method == "Delete" && paramIndex(fn, canon(a.Key)) >= 0 {
				s["DONE"] = true
			}
			if cf := callee(ci); cf != nil && cf != fn && firstParty(cf) {
				// a helper that removes the entry of the key it is given, on all of its paths
				for _, pi := range c.ttlRemoverParams(cf) {
					if pi < len(ci.Call.Args) && paramIndex(fn, canon(ci.Call.Args[pi])) >= 0 {
						s["DONE"] = true
					}
				}
				// a helper that keeps the same contract (removed, or found none) for a key it is handed
				if depth < 2 && len(cf.Blocks) > 0 && !s["DONE"] {
					for pi, a := range ci.Call.Args {
						if paramIndex(fn, canon(a)) < 0 || pi >= len(cf.Params) || paramIndex(cf, canon(cf.Params[pi])) < 0 {
							continue
						}
						touches := false
						for _, b := range cf.Blocks {
							for _, in2 := range b.Instrs {
								if c2, ok := in2.(ssa.CallInstruction); ok {
									if a2 := c.keyspaceAccess(c2); a2 != nil && a2.Map == "ttlKeys" && canon(a2.Key) == canon(cf.Params[pi]) {
										touches = true
									}
								}
							}
						}
						if !touches {
							continue
						}
						if b2, n2 := c.ttlGoneAtReturns(cf, depth+1); len(b2) == 0 && n2 > 0 {
							s["DONE"] = true
						}
					}
				}
			}
		}
		return s, false
	}
	edge := func(from, to *ssa.BasicBlock, s Set) Set {
		cond, neg, ok := branchCond(from, to)
		if !ok {
			return s
		}
		for {
			u, isNot := cond.(*ssa.UnOp)
			if !isNot || u.Op != token.NOT {
				break
			}
			cond, neg = u.X, !neg
		}
		if ex, ok := cond.(*ssa.Extract); ok && ex.Index == 1 && neg {
			if call, ok := ex.Tuple.(*ssa.Call); ok {
				if a := c.keyspaceAccess(call); a != nil && a.Map == "ttlKeys" && a.Method == "Get" && paramIndex(fn, canon(a.Key)) >= 0 {
					s["DONE"] = true // nothing to remove
				}
			}
		}
		return s
	}
	fl := &Flow{Fn: fn, Must: true, Entry: Set{}, Transfer: tr, EdgeGen: edge}
	fl.Run()
	for _, b := range fn.Blocks {
		for _, in := range b.Instrs {
			if ret, ok := in.(*ssa.Return); ok {
				if s, live := fl.Before(ret); live {
					n++
					if !s["DONE"] {
						bad = append(bad, c.pos(ret.Pos()))
					}
				}
			}
		}
	}
	return bad, n
}

// R17s: the matcher consumes one subject byte per pattern element.
var rR17s = RuleRef{Name: "R17s", Doc: "one pattern element, one subject byte: in the main loop of the glob matcher every path from the loop head back to it advances the subject position (an arm that moves on in the pattern without comparing and consuming a subject byte — an escape that is skipped instead of matched — makes the rest of the pattern line up with the wrong bytes); the '*' arm, which recurses and returns, has no such path", Run: func(c *C) {
	pm := c.P.Func("util", "PattenMatch")
	if pm == nil {
		c.Undecided("R17s", "anchor util.PattenMatch")
		return
	}
	loops := naturalLoops(pm)
	// the main loop: the outermost loop whose header tests the pattern position against the pattern length
	var head *ssa.BasicBlock
	var body map[*ssa.BasicBlock]bool
	for h, b := range loops {
		if body == nil || len(b) > len(body) {
			head, body = h, b
		}
	}
	if head == nil {
		c.Undecided("R17s", "main loop of util.PattenMatch")
		return
	}
	// subject position: an int phi of the header that indexes the second string parameter somewhere in the loop
	var src *ssa.Phi
	for _, in := range head.Instrs {
		phi, ok := in.(*ssa.Phi)
		if !ok {
			break
		}
		if !isIntType(phi.Type()) {
			continue
		}
		for b := range body {
			for _, bi := range b.Instrs {
				var x, idx ssa.Value
				switch y := bi.(type) {
				case *ssa.Lookup:
					x, idx = y.X, y.Index
				case *ssa.Index:
					x, idx = y.X, y.Index
				case *ssa.IndexAddr:
					x, idx = y.X, y.Index
				}
				if x != nil && len(pm.Params) == 2 && x == ssa.Value(pm.Params[1]) {
					hit := false
					backslice(idx, func(v ssa.Value) bool {
						if v == ssa.Value(phi) {
							hit = true
						}
						return !hit
					})
					if hit {
						src = phi
					}
				}
			}
		}
	}
	if src == nil {
		c.Undecided("R17s", "subject position variable of util.PattenMatch")
		return
	}
	// on every back edge the value carried for the subject position must differ from the header value by +1
	n := 0
	var bad []string
	for i, pred := range head.Preds {
		if !body[pred] {
			continue
		}
		n++
		// walk the carried value back through the phis inside the loop: every leaf must be src+k with k >= 1
		seen := map[ssa.Value]bool{}
		var check func(v ssa.Value) bool
		check = func(v ssa.Value) bool {
			if seen[v] {
				return true
			}
			seen[v] = true
			switch x := v.(type) {
			case *ssa.Phi:
				if x == src {
					return false // unchanged
				}
				for _, e := range x.Edges {
					if !check(e) {
						return false
					}
				}
				return true
			case *ssa.BinOp:
				if x.Op == token.ADD {
					if k, ok := constInt(x.Y); ok && k >= 1 {
						// src+1, or (something that already advanced)+1
						if x.X == ssa.Value(src) {
							return true
						}
						return check(x.X) || baseIs(x.X, src)
					}
				}
			}
			return false
		}
		if !check(src.Edges[i]) {
			bad = append(bad, fmt.Sprintf("back edge from block %d carries %s", pred.Index, canon(src.Edges[i])))
		}
	}
	c.Add("R17s", fnName(pm), "every iteration of the main loop consumes a subject byte", pm.Pos(), len(bad) == 0 && n > 0, "some path returns to the loop head with the subject position unchanged: "+strings.Join(bad, "; "))
	c.Count("R17s_back_edges", n)
}}

// baseIs: v is base, or base plus non-negative constants.
func baseIs(v ssa.Value, base ssa.Value) bool {
	for d := 0; d < 6; d++ {
		if v == base {
			return true
		}
		bo, ok := v.(*ssa.BinOp)
		if !ok || bo.Op != token.ADD {
			return false
		}
		if k, ok := constInt(bo.Y); !ok || k < 0 {
			return false
		}
		v = bo.X
	}
	return false
}

// applyLoop locates the function that applies committed log entries to the state machine by what it does: a function of
// package server that receives from a channel of raft commits and reaches a command dispatcher. The name it has today
// (handleClusterCommits) is only the fallback.
func (c *C) applyLoop() *ssa.Function {
	if c.applyLoopFn != nil {
		return c.applyLoopFn
	}
	var cands []*ssa.Function
	for _, fn := range c.P.allFuncs("server") {
		if fn.Parent() != nil || fn.Blocks == nil {
			continue
		}
		recv := false
		for _, p := range fn.Params {
			if ch, ok := p.Type().Underlying().(*types.Chan); ok && strings.Contains(ch.Elem().String(), "RaftCommit") {
				recv = true
			}
		}
		if !recv {
			continue
		}
		disp := false
		for _, d := range c.Facts.Dispatchers {
			if d.Parent() == fn || callsTransitively(fn, d.Parent(), 0) {
				disp = true
			}
		}
		if disp {
			cands = append(cands, fn)
		}
	}
	if len(cands) == 1 {
		c.applyLoopFn = cands[0]
	} else if f := c.P.Func("server", "handleClusterCommits"); f != nil {
		c.applyLoopFn = f
	}
	return c.applyLoopFn
}

// globalMapInit: the key/value pairs a package-level map variable is initialised with (a map composite literal in its
// declaration). ok is false when the variable is assigned anywhere else or its initialiser is not a plain literal:
// then nothing is known about its contents.
type mapEntry struct{ Key, Val ssa.Value }

func (c *C) globalMapInit(g *ssa.Global) ([]mapEntry, bool) {
	if g == nil || g.Pkg == nil {
		return nil, false
	}
	initFn := g.Pkg.Func("init")
	if initFn == nil {
		return nil, false
	}
	var m ssa.Value
	stores := 0
	// every store to the global, anywhere in its package
	for _, mem := range g.Pkg.Members {
		fn, ok := mem.(*ssa.Function)
		if !ok {
			continue
		}
		fns := append([]*ssa.Function{fn}, fn.AnonFuncs...)
		for _, f := range fns {
			for _, b := range f.Blocks {
				for _, in := range b.Instrs {
					if st, ok := in.(*ssa.Store); ok && st.Addr == ssa.Value(g) {
						stores++
						if f == initFn {
							m = st.Val
						}
					}
				}
			}
		}
	}
	mk, isMake := m.(*ssa.MakeMap)
	if stores != 1 || !isMake || mk.Referrers() == nil {
		return nil, false
	}
	var out []mapEntry
	for _, r := range *mk.Referrers() {
		switch x := r.(type) {
		case *ssa.MapUpdate:
			out = append(out, mapEntry{x.Key, x.Value})
		case *ssa.Store, *ssa.DebugRef:
		default:
			return nil, false
		}
	}
	// no update through the global elsewhere
	for _, fn := range c.P.allFuncs(firstPartyPkgs...) {
		for _, b := range fn.Blocks {
			for _, in := range b.Instrs {
				if mu, ok := in.(*ssa.MapUpdate); ok {
					if u, ok := mu.Map.(*ssa.UnOp); ok && u.X == ssa.Value(g) {
						return nil, false
					}
				}
			}
		}
	}
	return out, true
}

// lookupOfGlobalMap: v is m[k] (either form) on a package-level map; returns the global and the key.
func lookupOfGlobalMap(v ssa.Value) (*ssa.Global, ssa.Value) {
	if ex, ok := v.(*ssa.Extract); ok {
		v = ex.Tuple
	}
	lk, ok := v.(*ssa.Lookup)
	if !ok {
		return nil, nil
	}
	u, ok := lk.X.(*ssa.UnOp)
	if !ok {
		return nil, nil
	}
	g, ok := u.X.(*ssa.Global)
	if !ok {
		return nil, nil
	}
	return g, lk.Index
}

// funcArgBindings: which functions (closures or named functions) are passed for which function-typed parameter of a
// first-party function at its static call sites; argOnly holds the closures whose every use is such an argument (they
// are only ever run by the functions they are handed to).
func (c *C) funcArgBindings() (map[*ssa.Parameter][]*ssa.Function, map[*ssa.Function]bool) {
	if c.fab != nil {
		return c.fab, c.fabArgOnly
	}
	c.fab = map[*ssa.Parameter][]*ssa.Function{}
	c.fabArgOnly = map[*ssa.Function]bool{}
	notOnly := map[*ssa.Function]bool{}
	for _, fn := range c.P.allFuncs(firstPartyPkgs...) {
		for _, b := range fn.Blocks {
			for _, in := range b.Instrs {
				mc, ok := in.(*ssa.MakeClosure)
				if !ok || mc.Referrers() == nil {
					continue
				}
				g, _ := mc.Fn.(*ssa.Function)
				if g == nil {
					continue
				}
				for _, r := range *mc.Referrers() {
					call, ok := r.(*ssa.Call)
					if _, isDbg := r.(*ssa.DebugRef); isDbg {
						continue
					}
					if !ok || call.Call.Value == ssa.Value(mc) {
						notOnly[g] = true
						continue
					}
					cf := callee(call)
					if cf == nil || !firstParty(cf) || cf.Blocks == nil {
						notOnly[g] = true
						continue
					}
					bound := false
					for i, a := range call.Call.Args {
						if a == ssa.Value(mc) && i < len(cf.Params) {
							c.fab[cf.Params[i]] = append(c.fab[cf.Params[i]], g)
							bound = true
						}
					}
					if !bound {
						notOnly[g] = true
					} else if !notOnly[g] {
						c.fabArgOnly[g] = true
					}
				}
			}
		}
	}
	for g := range notOnly {
		delete(c.fabArgOnly, g)
	}
	// named functions (and method values) passed as arguments: fetchOrCreate(m, key, NewHash)
	for _, fn := range c.P.allFuncs(firstPartyPkgs...) {
		for _, b := range fn.Blocks {
			for _, in := range b.Instrs {
				call, ok := in.(*ssa.Call)
				if !ok {
					continue
				}
				cf := callee(call)
				if cf == nil || !firstParty(cf) || cf.Blocks == nil {
					continue
				}
				for i, a := range call.Call.Args {
					if ct, ok := a.(*ssa.ChangeType); ok {
						a = ct.X
					}
					g, ok := a.(*ssa.Function)
					if !ok || i >= len(cf.Params) {
						continue
					}
					have := false
					for _, h := range c.fab[cf.Params[i]] {
						if h == g {
							have = true
						}
					}
					if !have {
						c.fab[cf.Params[i]] = append(c.fab[cf.Params[i]], g)
					}
				}
			}
		}
	}
	// a function parameter handed on to another first-party function (ForEach(visit) -> shard.forEach(visit)): the
	// inner parameter is bound to whatever the outer one is bound to
	for changed, iter := true, 0; changed && iter < 4; iter++ {
		changed = false
		for _, fn := range c.P.allFuncs(firstPartyPkgs...) {
			for _, b := range fn.Blocks {
				for _, in := range b.Instrs {
					call, ok := in.(*ssa.Call)
					if !ok {
						continue
					}
					cf := callee(call)
					if cf == nil || !firstParty(cf) || cf.Blocks == nil {
						continue
					}
					for i, a := range call.Call.Args {
						prm, ok := a.(*ssa.Parameter)
						if !ok || i >= len(cf.Params) {
							continue
						}
						for _, g := range c.fab[prm] {
							have := false
							for _, h := range c.fab[cf.Params[i]] {
								if h == g {
									have = true
								}
							}
							if !have {
								c.fab[cf.Params[i]] = append(c.fab[cf.Params[i]], g)
								changed = true
							}
						}
					}
				}
			}
		}
	}
	return c.fab, c.fabArgOnly
}

// R22o: conditional options are consulted before anything is changed.
var rR22o = RuleRef{Name: "R22o", Doc: "a command with NX/XX/GT/LT conditions changes state only where the condition was consulted: in an executor that compares an option argument with those names, every keyspace write and every deadline change lies on paths that have tested the option (a shortcut placed before the option switch applies the command whatever the condition says)", Run: func(c *C) {
	optNames := map[string]bool{"nx": true, "xx": true, "gt": true, "lt": true}
	setTTL, delTTL := c.P.Func("memdb", "MemDb.SetTTL"), c.P.Func("memdb", "MemDb.DelTTL")
	n := 0
	for name, fn := range c.Facts.Executors {
		found := map[string]bool{}
		loops := naturalLoops(fn)
		inLoop := false
		for _, b := range fn.Blocks {
			for _, in := range b.Instrs {
				if bo, ok := in.(*ssa.BinOp); ok && (bo.Op == token.EQL || bo.Op == token.NEQ) {
					for _, side := range []ssa.Value{bo.X, bo.Y} {
						if s, ok := constString(side); ok && optNames[s] {
							found[s] = true
							for _, body := range loops {
								if body[b] {
									inLoop = true
								}
							}
						}
					}
				}
			}
		}
		// executors that scan a list of option words in a loop and remember them in flags decide elsewhere (their
		// flag tests are the subject of R22/R27); this rule is about a single option word decided on the spot
		if len(found) < 2 || inLoop {
			continue
		}
		// every comparison of the option value (the thing compared with "nx", "xx", ...) with any constant counts
		optVals := map[ssa.Value]bool{}
		for _, b := range fn.Blocks {
			for _, in := range b.Instrs {
				if bo, ok := in.(*ssa.BinOp); ok && (bo.Op == token.EQL || bo.Op == token.NEQ) {
					if s, ok := constString(bo.Y); ok && optNames[s] {
						optVals[bo.X] = true
					}
					if s, ok := constString(bo.X); ok && optNames[s] {
						optVals[bo.Y] = true
					}
				}
			}
		}
		consultNames := map[string]bool{}
		for _, b := range fn.Blocks {
			for _, in := range b.Instrs {
				if bo, ok := in.(*ssa.BinOp); ok && (bo.Op == token.EQL || bo.Op == token.NEQ) {
					_, cx := constString(bo.X)
					_, cy := constString(bo.Y)
					if (optVals[bo.X] && cy) || (optVals[bo.Y] && cx) {
						if nm, _ := condName(bo); nm != "" {
							consultNames[nm] = true
						}
					}
				}
			}
		}
		of := c.orderFlow(fn, nil, true, "T|cmp:*", "F|cmp:*")
		ord := 0
		for _, b := range fn.Blocks {
			for _, in := range b.Instrs {
				call, ok := in.(*ssa.Call)
				if !ok {
					continue
				}
				what := ""
				if a := c.keyspaceAccess(call); a != nil && a.Write {
					what = a.Map + "." + a.Method
				} else if cf := callee(call); cf != nil && (cf == setTTL || cf == delTTL) {
					what = cf.Name()
				}
				if what == "" {
					continue
				}
				n++
				ord++
				states, live := of.States(in)
				good := live
				for _, st := range states {
					consulted := false
					for f := range st {
						if len(f) > 2 && consultNames[f[2:]] {
							consulted = true
						}
					}
					if !consulted {
						good = false
					}
				}
				c.Add("R22o", fnName(fn), fmt.Sprintf("%s: %s (#%d) happens only after the option was consulted", strings.ToUpper(name), what, ord), call.Pos(), good, "a path reaches this change without having compared the option argument with any of its names")
			}
		}
	}
	c.Count("R22o_conditional_changes", n) // no floor: the shape this rule speaks about may legitimately not occur
}}

// R11m: an empty bulk string is a legal argument.
var rR11m = RuleRef{Name: "R11m", Doc: "a bulk body may be empty: a protocol error that the parser reports because the line it read is shorter than some minimum is reported only on paths that are not reading a bulk body (the state's multiLine flag tested false); the body of `$0` is just the two terminator bytes", Run: func(c *C) {
	parse := c.P.Func("resp", "parse")
	if parse == nil {
		c.Undecided("R11m", "anchor resp.parse")
		return
	}
	isErrReport := func(v ssa.Value) bool {
		al, ok := v.(*ssa.Alloc)
		if !ok || al.Referrers() == nil || namedOf(al.Type()) != "ParsedRes" {
			return false
		}
		for _, r := range *al.Referrers() {
			if fa, ok := r.(*ssa.FieldAddr); ok && fieldName(fa) == "Err" && fa.Referrers() != nil {
				for _, rr := range *fa.Referrers() {
					if st, ok := rr.(*ssa.Store); ok && !isNilConst(st.Val) {
						if u, ok := st.Val.(*ssa.UnOp); ok {
							if g, ok := u.X.(*ssa.Global); ok && g.Name() == "EOF" {
								return false
							}
						}
						return true
					}
				}
			}
		}
		return false
	}
	n := 0
	seen := map[*ssa.Function]bool{}
	for _, fn := range append([]*ssa.Function{parse}, helperScope(parse, 2)...) {
		if pkgRel(fn) != "resp" || seen[fn] {
			continue
		}
		seen[fn] = true
		var of *OrderFlow
		for _, b := range fn.Blocks {
			for _, in := range b.Instrs {
				report := false
				switch x := in.(type) {
				case *ssa.Send:
					report = isErrReport(x.X)
				case *ssa.Call:
					for _, a := range x.Call.Args {
						if isErrReport(a) {
							report = true
						}
					}
				}
				if !report {
					continue
				}
				if of == nil {
					of = c.orderFlow(fn, nil, true, "T|cmp:len(*", "F|field:multiLine")
				}
				n++
				states, live := of.States(in)
				good := true
				if live {
					for _, st := range states {
						short := false
						for f := range st {
							if strings.HasPrefix(f, "T|cmp:len(") && strings.Contains(f, "<") {
								short = true
							}
						}
						if short && !st["F|field:multiLine"] {
							good = false
						}
					}
				}
				c.Add("R11m", fnName(fn), fmt.Sprintf("error report #%d for a too-short line is not made while a bulk body is being read", n), in.Pos(), good, "a minimum-length test rejects what was read without regard to the multiLine state: an empty bulk string ($0) is refused")
			}
		}
	}
	c.Count("R11m_error_reports", n)
}}
