package main

import (
	"fmt"
	"os"

	"rgcheck/rg"
)

func main() {
	os.Exit(rg.Main(os.Args[1:]))
}

var _ = fmt.Sprint
