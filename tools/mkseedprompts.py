#!/usr/bin/env python3
"""usage: tools/mkseedprompts.py <round> <variant-letters> <promptdir> <outdir>
Writes one self-contained task description per property for a sub-agent that is to break the property in a scratch
worktree /tmp/sgNN (nothing from /verif is given to it but the property text and one-line summaries of the earlier
changes, so that it does something new)."""
import json, sys, os, glob
rnd, letters, pdir, odir = sys.argv[1:5]
os.makedirs(pdir, exist_ok=True)
props = [json.loads(l) for l in open('/verif/properties.jsonl')]
for p in props:
    pid = p['id']; n = pid[1:]
    earlier = []
    for d in sorted(glob.glob(f'/verif/seeded/{pid}*/meta.json')):
        m = json.load(open(d))
        earlier.append('   - ' + ' '.join(m.get('summary', '').split())[:200])
    anchors = p.get('anchors', {})
    atxt = 'files: ' + ', '.join(anchors.get('files', []))
    v1, v2 = letters[0], letters[1]
    txt = f"""You are a senior Go engineer taking part in a verification experiment on the repository innovationb1ue/RedisGO (a Redis-compatible in-memory KV server in Go: RESP protocol, TTLs, AVL sorted sets, and a Raft cluster mode built on a copied-in etcd tree). You have a private git worktree of it at /tmp/sg{n} (detached HEAD). Work ONLY inside /tmp/sg{n} and your output directory {odir}/{pid} (create it). Never touch /repo, /verif or any other directory.

Every shell call that runs go needs: export GOFLAGS=-mod=mod GOPROXY=off GOSUMDB=off GOTOOLCHAIN=local GOWORK=off   (no network; nothing can be downloaded).

The repository is supposed to satisfy this semantic property:

  {pid} - {p['title']}
  {p['statement']}
  Quantifier: {p['quantifier']['text']}
  Anchors (where the behaviour lives): {atxt}

Your job: write TWO independent, realistic changes to the repository (variants "{v1}" and "{v2}"), each of which BREAKS this property while the code still compiles and ALL existing tests still pass. Each must look like something a well-meaning developer could plausibly commit (an optimisation, a clean-up, a feature tweak, a "simplification", a compatibility tweak) - not sabotage, no dead giveaways in comments. IMPORTANT: the breakage must need something specific to manifest, so that ordinary use would not expose it at once: a particular interleaving of goroutines/clients, a crash or fault at a particular point, a multi-step sequence of operations, an unusual input or option combination, or two cooperating sites that each look fine on their own. Use the whole range of mechanisms: a guard or check that is dropped, weakened or moved; a step performed in the wrong order or skipped on one path; state shared that should be private (or copied that should be shared); a resource (lock, channel, file, timer) released too early, too late, twice or not at all on one path; an error or an edge case swallowed; an optimisation or cache that goes stale; a new helper or fast path that disagrees with the slow path in a corner case; wrong values at boundaries. The two variants must use different mechanisms and different code sites from each other, and must differ from these earlier experiments on the same property (do not repeat their ideas or their sites):
{chr(10).join(earlier)}

At least one of your two variants should sit in a function that none of the experiments listed above touched, and at least one should be a STRUCTURAL mistake (a missing or misplaced step, lock, check, release, copy or error path) rather than a wrong constant or comparison. Never use `git stash` (the stash is shared between worktrees); use `git checkout -- . && git clean -fd` and patch files only.

For each variant V in {{{v1}, {v2}}}:
 1. Start from the clean worktree (git checkout -- . && git clean -fd).
 2. Write a DEMONSTRATION first: a Go test file (package-internal test in the package concerned; name it zz_{pid}V_demo_test.go with test functions named TestSeed{pid}V...) that PASSES on the unchanged tree. For concurrency/crash properties make the demonstration deterministic (control the interleaving with channels/hooks available in the code, loop enough iterations, or drive the functions directly in the critical order) - it must fail reliably with your change, not one time in twenty. Keep its runtime under 30 s.
 3. Make the change. go build ./... must pass (for code under etcd/<module>/ also `cd etcd/<module> && go build ./...`).
 4. Check: the demonstration now FAILS; the existing tests still PASS with the change and without the demo file: root module `go test -vet=off -count=1 ./memdb ./resp ./server ./util ./raftexample` (./config has one test that already fails on the untouched tree; ignore that package), and if you touched etcd code also the tests of the touched etcd packages (e.g. cd etcd/raft && go test -vet=off -count=1 ./... ; cd etcd/server && go test -vet=off -count=1 ./storage/wal/... ./etcdserver/api/snap/...).
 5. Save into {odir}/{pid}/V/ : patch.diff (git diff of the change only, WITHOUT the demo file), demo/<the test file>, and meta.json with exactly these keys: {{"property": "{pid}", "variant": "V", "summary": "<what was changed and why it breaks the property, 3-8 sentences>", "needs": "<what specific input/sequence/interleaving/fault is needed for it to manifest>", "demo_files": [{{"src": "demo/<file>", "dst": "<repo-relative path where the file must be placed, e.g. memdb/zz_..._test.go>"}}], "demo_cmd": "<the go test command, run from the repo root (or cd into the etcd module)>", "existing_tests_cmd": "<what you ran>"}}.
 6. Restore the worktree.

Do not weaken or edit existing tests. Do not add build tags. Finish with a short report (one paragraph per variant: the idea, the site, what is needed to manifest, what you ran and saw).
"""
    open(f'{pdir}/{pid}.txt', 'w').write(txt)
print('wrote', len(props), 'prompts to', pdir)
