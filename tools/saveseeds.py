#!/usr/bin/env python3
"""Copy verified seeded changes into /verif/seeded/<id>/ and record which checks catch them.
usage: tools/saveseeds.py <seed_out dir> <verify log>..."""
import json, os, re, shutil, subprocess, sys
src = sys.argv[1]
REN = {}
args = sys.argv[2:]
if args and args[0].startswith("--rename="):
    for kv in args[0][9:].split(","):
        k, v = kv.split(":")
        REN[k] = v
    args = args[1:]
logs = "".join(open(f).read() for f in args)
# verification results parsed from the logs written by tools/seedcheck.sh ... verify
verified = {}
for m in re.finditer(r"^######## (C\d+)/([a-z])\n(.*?)(?=^######## |\Z)", logs, re.S | re.M):
    body = m.group(3)
    ex = re.findall(r"exit=(\d+)", body)
    tests_ok = "FAIL" not in "\n".join(l for l in body.splitlines() if l.strip().startswith("| ok") or "existing tests" in l)
    oks = len(re.findall(r"\| ok\s", body))
    if len(ex) >= 2:
        verified[(m.group(1), m.group(2))] = {"demo_exit_unchanged_tree": int(ex[0]), "demo_exit_patched_tree": int(ex[1]), "existing_first_party_test_packages_ok_on_patched_tree": oks}
out_root = "/verif/seeded"
os.makedirs(out_root, exist_ok=True)
summary = []
def one(job):
    prop, v, d, ver = job
    dst = os.path.join(out_root, prop + REN.get(v, v))
    first_eval = None
    if os.path.exists(os.path.join(dst, "meta.json")):
        first_eval = json.load(open(os.path.join(dst, "meta.json"))).get("fired_at_first_evaluation")
    shutil.rmtree(dst, ignore_errors=True)
    shutil.copytree(d, dst)
    meta = json.load(open(os.path.join(dst, "meta.json")))
    r = subprocess.run(["/verif/tools/seedcheck.sh", d], capture_output=True, text=True)
    fired = re.findall(r"^FIRED (C\d+)", r.stdout, re.M)
    rules = sorted(set(re.findall(r"^  \S+ (R\w+) ", r.stdout, re.M)))
    first = [l.strip()[:300] for l in r.stdout.splitlines() if l.startswith("  ")][:3]
    meta.update({
        "property": prop, "variant": REN.get(v, v),
        "verified_by_me": dict(ver, how="tools/seedcheck.sh <dir> verify: demo copied into a scratch worktree of /repo HEAD, run on the unchanged tree (must pass), patch applied with git apply, demo re-run (must fail), demo removed, go build ./... and go test -vet=off -count=1 ./memdb ./resp ./server ./util ./raftexample on the patched tree"),
        "fired_at_first_evaluation": first_eval if first_eval is not None else fired,
        "caught_by_checks": fired, "caught_by_rules": rules, "first_reports": first,
    })
    json.dump(meta, open(os.path.join(dst, "meta.json"), "w"), indent=1)
    return (prop + REN.get(v, v), fired, rules)

jobs = []
for prop in sorted(os.listdir(src)):
    for v in sorted(x for x in os.listdir(os.path.join(src, prop)) if len(x) == 1):
        d = os.path.join(src, prop, v)
        if not os.path.isfile(os.path.join(d, "patch.diff")):
            continue
        ver = verified.get((prop, v))
        if not ver or ver["demo_exit_unchanged_tree"] != 0 or ver["demo_exit_patched_tree"] == 0:
            print("SKIP (not verified)", prop, v, ver)
            continue
        jobs.append((prop, v, d, ver))
from concurrent.futures import ThreadPoolExecutor
with ThreadPoolExecutor(max_workers=int(os.environ.get("SAVESEEDS_JOBS", "6"))) as ex:
    for res in ex.map(one, jobs):
        summary.append(res)
        print(*res)
sf = os.path.join(out_root, "SUMMARY.json")
old = json.load(open(sf)) if os.path.exists(sf) else []
new = {e["seed"]: e for e in old}
for s_, f, r in summary:
    new[s_] = {"seed": s_, "fired": f, "rules": r}
json.dump([new[k] for k in sorted(new)], open(sf, "w"), indent=1)
