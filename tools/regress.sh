#!/bin/bash
# Regression of the checks against the committed corpora (static analysis of scratch copies only, nothing is executed):
#   /verif/refactorings/*  behaviour-preserving refactorings  -> every check must stay silent
#   /verif/seeded/*        property-breaking changes           -> the checks recorded in meta.json must fire
# usage: tools/regress.sh [name-filter-regex]
set -u
FILTER=${1:-.}
ROOT=/tmp/rg_reg.$$
mkdir -p $ROOT
trap 'rm -rf '$ROOT EXIT
run_one() {
  kind=$1; dir=$2; name=$(basename $dir)
  w=$ROOT/$name; mkdir -p $w/verif
  rsync -a --exclude .git /repo/ $w/repo/
  cp /verif/known_findings.json $w/verif/
  if ! (cd $w/repo && git apply --whitespace=nowarn $dir/patch.diff) 2>/dev/null; then echo "SKIP $kind $name (patch does not apply)"; rm -rf $w; return; fi
  cp -al $SEED $w/gocache
  out=$(GOCACHE=$w/gocache RG_WORK=$w/work /verif/bin/rgcheck -prop all -repo $w/repo -verif $w/verif 2>&1)
  fired=$(echo "$out" | grep '^VIOLATION' | sed 's/.*property=\(C[0-9]*\).*/\1/' | tr '\n' ' ')
  if [ $kind = ref ]; then
    if [ -n "$fired" ]; then echo "FALSE-ALARM $name: $fired"; echo "$out" | grep '^  ' | sort -u | cut -c1-240 | head -8; else echo "ok silent $name"; fi
  else
    want=$(python3 -c "import json;print(' '.join(json.load(open('$dir/meta.json')).get('caught_by_checks',[])))")
    own=${name:0:3}
    if echo " $fired" | grep -q " $own "; then echo "ok caught $name: $fired"; elif [ -n "$fired" ]; then echo "caught-elsewhere $name: $fired (recorded: $want)"; else if [ -z "$want" ]; then echo "ok missed-as-recorded $name"; else echo "REGRESSION-MISS $name (recorded: $want)"; fi; fi
  fi
  rm -rf $w
}
export -f run_one; export ROOT
# every scratch copy compiles under its own path and would add ~0.3 GB to the shared Go build cache (a whole run filled the
# disk once): each copy gets a hard-linked clone of a warm cache that holds the standard library, and takes it away with it
SEED=$ROOT/gocache_seed
GOCACHE=$SEED RG_WORK=$ROOT/seedwork /verif/bin/rgcheck -prop C04 -repo /repo -verif $ROOT/seedverif >/dev/null 2>&1
rm -rf $ROOT/seedwork $ROOT/seedverif
export SEED
( for d in /verif/refactorings/*/; do [ -f $d/patch.diff ] && echo "ref ${d%/}"; done; for d in /verif/seeded/*/; do [ -f $d/patch.diff ] && echo "seed ${d%/}"; done ) | grep -E "$FILTER" | xargs -P 8 -L 1 bash -c 'run_one $0 $1' | sort
