#!/bin/bash
# usage: tools/ingestseeds.sh <seed_out dir> [Cxx ...]  -- verify (demo both ways + existing tests) and store the delivered seeds
set -u
SRC=$1; shift
LOG=/tmp/seedverify.$$.log; : > $LOG
for p in ${@:-$(ls $SRC)}; do
  for v in $(ls $SRC/$p); do
    [ -f $SRC/$p/$v/patch.diff ] || continue
    [ -d /verif/seeded/$p$v ] && continue
    echo "######## $p/$v" >> $LOG
    /verif/tools/seedcheck.sh $SRC/$p/$v verify >> $LOG 2>&1
  done
done
mkdir -p /tmp/ingest.$$; for p in ${@:-$(ls $SRC)}; do mkdir -p /tmp/ingest.$$/$p; for v in $(ls $SRC/$p); do [ -d /verif/seeded/$p$v ] || { [ -f $SRC/$p/$v/patch.diff ] && cp -r $SRC/$p/$v /tmp/ingest.$$/$p/; }; done; done
python3 /verif/tools/saveseeds.py /tmp/ingest.$$ $LOG
rm -rf /tmp/ingest.$$
echo "log: $LOG"
