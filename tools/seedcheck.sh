#!/bin/bash
# usage: tools/seedcheck.sh <seed dir with patch.diff meta.json demo/> [verify]
# Applies the patch to a scratch worktree of /repo (never to /repo itself), optionally verifies the demo in both
# directions plus the existing tests, then runs every registered property check against the patched tree.
set -u
export GOFLAGS=-mod=mod GOPROXY=off GOSUMDB=off GOTOOLCHAIN=local GOWORK=off
SEED=$(readlink -f "$1"); MODE=${2:-check}
WT=/tmp/seedwt.$$
git -C /repo worktree add --detach -f $WT HEAD >/dev/null 2>&1 || { echo "cannot create worktree"; exit 2; }
trap 'git -C /repo worktree remove --force '$WT' >/dev/null 2>&1; rm -rf /tmp/seedverif.'$$ EXIT
cd $WT
copy_demo() { python3 - "$SEED" "$WT" <<'PY'
import json,sys,shutil,os
seed,wt=sys.argv[1],sys.argv[2]
m=json.load(open(seed+'/meta.json'))
for d in m.get('demo_files',[]):
    dst=os.path.join(wt,d['dst']); os.makedirs(os.path.dirname(dst),exist_ok=True); shutil.copy(os.path.join(seed,d['src']),dst)
import re
cmds=[]
bydir={}
for d in m.get('demo_files',[]):
    src=open(os.path.join(seed,d['src'])).read()
    names=re.findall(r'^func (Test\w+)\(',src,re.M)
    bydir.setdefault(os.path.dirname(d['dst']),[]).extend(names)
for dr,names in bydir.items():
    if names:
        if dr.startswith('etcd/'):
            parts=dr.split('/'); mod='/'.join(parts[:2]); rel='/'.join(parts[2:]) or '.'
            cmds.append("(cd %s && go test -vet=off -count=1 -run '^(%s)$' ./%s)"%(mod,'|'.join(names),rel))
        else:
            cmds.append("go test -vet=off -count=1 -run '^(%s)$' ./%s"%('|'.join(names),dr))
print(' && '.join(cmds))
PY
}
if [ "$MODE" = verify ]; then
  DEMO=$(copy_demo)
  echo "== demo on unchanged tree: $DEMO"
  (eval "$DEMO") >/tmp/seedverif.$$.base 2>&1; B=$?
  echo "   exit=$B (want 0)"
  git apply $SEED/patch.diff || { echo "patch does not apply"; exit 2; }
  echo "== demo on patched tree"
  (eval "$DEMO") >/tmp/seedverif.$$.pat 2>&1; P=$?
  echo "   exit=$P (want non-zero)"; tail -5 /tmp/seedverif.$$.pat | sed 's/^/   | /'
  # remove demo files, run existing tests on patched tree
  git clean -fdq; 
  echo "== existing tests on patched tree"
  go build ./... && go test -vet=off -count=1 ./memdb ./resp ./server ./util ./raftexample 2>&1 | tail -6 | sed 's/^/   | /'
  rm -f /tmp/seedverif.$$.*
else
  git apply $SEED/patch.diff || { echo "patch does not apply"; exit 2; }
fi
git checkout -q -- go.sum etcd/go.sum 2>/dev/null
mkdir -p /tmp/seedverif.$$; cp /verif/known_findings.json /tmp/seedverif.$$/
echo "== checks against patched tree"
GCSEED=/tmp/rg_gocache_seed; [ -d $GCSEED ] || GOCACHE=$GCSEED RG_WORK=/tmp/seedwork.$$ /verif/bin/rgcheck -prop C04 -repo /repo -verif /tmp/seedverif0.$$ >/dev/null 2>&1; rm -rf /tmp/seedwork.$$ /tmp/seedverif0.$$ /tmp/seedgc.$$; cp -al $GCSEED /tmp/seedgc.$$
out=$(GOCACHE=/tmp/seedgc.$$ ${RGCHECK:-/verif/bin/rgcheck} -prop all -repo $WT -verif /tmp/seedverif.$$ 2>&1)
echo "$out" | awk '/^property=/{p=$1; sub("property=","",p)} /^  /{lines[p]=lines[p] "\n" substr($0,1,260)} /^VIOLATION/{v=$2; sub("property=","",v); print "FIRED " v; n=split(lines[v],a,"\n"); for(i=2;i<=n&&i<=5;i++) print a[i]}'
rm -rf /tmp/seedgc.$$
echo "== done"
