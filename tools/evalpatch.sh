#!/bin/bash
# usage: tools/evalpatch.sh <patch.diff> [label]   -- static analysis of an rsync copy of /repo with the patch applied (nothing is executed)
set -u
P=$(readlink -f "$1"); L=${2:-$(basename $(dirname $P))}
w=/tmp/evalp.$$.$L; mkdir -p $w/verif
rsync -a --exclude .git /repo/ $w/repo/
cp /verif/known_findings.json $w/verif/
if ! (cd $w/repo && patch -p1 -s --no-backup-if-mismatch < $P) >/dev/null 2>&1; then echo "NOAPPLY $L"; rm -rf $w; exit 2; fi
SEED=/tmp/rg_gocache_seed
if [ ! -d $SEED ]; then GOCACHE=$SEED RG_WORK=$w/seedwork ${RGCHECK:-/verif/bin/rgcheck} -prop C04 -repo /repo -verif $w/seedverif >/dev/null 2>&1; fi
cp -al $SEED $w/gocache
out=$(GOCACHE=$w/gocache RG_WORK=$w/work ${RGCHECK:-/verif/bin/rgcheck} -prop all -repo $w/repo -verif $w/verif 2>&1)
fired=$(echo "$out" | grep '^VIOLATION' | sed 's/.*property=\(C[0-9]*\).*/\1/' | tr '\n' ' ')
if [ -n "$fired" ]; then echo "FIRED $L: $fired"; echo "$out" | grep '^  ' | sort -u | cut -c1-400 | head -12; else echo "silent $L"; fi
rm -rf $w
