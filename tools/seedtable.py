#!/usr/bin/env python3
"""Print the markdown table of DESIGN.md section 7.6 from /verif/seeded (one row per seeded change)."""
import json, os
root = "/verif/seeded"
rows = []
for n in sorted(os.listdir(root)) + ["retired/" + x for x in sorted(os.listdir(root + "/retired"))]:
    mp = os.path.join(root, n, "meta.json")
    if not os.path.isfile(mp):
        continue
    m = json.load(open(mp))
    name = os.path.basename(n)
    own = name[:3]
    first = m.get("fired_at_first_evaluation", m.get("caught_by_checks", []))
    now = m.get("caught_by_checks", [])
    summ = " ".join(m.get("summary", "").split())[:150].replace("|", "/")
    if n.startswith("retired/"):
        st = "retired (see 7.7)"
    elif own in now:
        st = ", ".join(now)
    elif now:
        st = "elsewhere: " + ", ".join(now)
    else:
        st = "— (missed)"
    f1 = "yes" if own in first else ("elsewhere" if first else "no")
    flags = []
    if m.get("rebased"):
        flags.append("rebased")
    rows.append("| %s | %s… | %s | %s | %s%s |" % (name, summ, f1, st, ", ".join(m.get("caught_by_rules", [])), (" (" + ",".join(flags) + ")") if flags else ""))
print("| seed | change | caught at first evaluation | fires under (now) | rules |")
print("|------|--------|----------------------------|-------------------|-------|")
for r in rows:
    print(r)
