#!/usr/bin/env python3
"""Re-evaluate every committed seeded change against the current checker and the current /repo tree
(static analysis of scratch worktrees only) and refresh caught_by_checks / caught_by_rules / SUMMARY.json.
fired_at_first_evaluation (what the checks reported before they were strengthened for that seed) is preserved.
usage: tools/refreshseeds.py [name-regex]"""
import json, os, re, subprocess, sys
from concurrent.futures import ThreadPoolExecutor
root = "/verif/seeded"
flt = re.compile(sys.argv[1] if len(sys.argv) > 1 else ".")
names = sorted(n for n in os.listdir(root) if os.path.isfile(os.path.join(root, n, "patch.diff")) and flt.search(n))
def one(n):
    d = os.path.join(root, n)
    r = subprocess.run(["/verif/tools/seedcheck.sh", d], capture_output=True, text=True)
    if "patch does not apply" in r.stdout + r.stderr:
        return n, None, None, None
    fired = re.findall(r"^FIRED (C\d+)", r.stdout, re.M)
    rules = sorted(set(re.findall(r"^  \S+ (R\w+) ", r.stdout, re.M)))
    first = [l.strip()[:300] for l in r.stdout.splitlines() if l.startswith("  ")][:3]
    return n, fired, rules, first
with ThreadPoolExecutor(8) as ex:
    res = list(ex.map(one, names))
sf = os.path.join(root, "SUMMARY.json")
summ = {e["seed"]: e for e in json.load(open(sf))}
for n, fired, rules, first in res:
    if fired is None:
        print("DOES-NOT-APPLY", n)
        continue
    mp = os.path.join(root, n, "meta.json")
    m = json.load(open(mp))
    if "fired_at_first_evaluation" not in m:
        m["fired_at_first_evaluation"] = m.get("caught_by_checks", [])
    m["caught_by_checks"], m["caught_by_rules"], m["first_reports"] = fired, rules, first
    json.dump(m, open(mp, "w"), indent=1)
    e = summ.setdefault(n, {"seed": n})
    e["fired"], e["rules"] = fired, rules
    e["first_evaluation"] = m["fired_at_first_evaluation"]
    own = n[:3]
    print(("caught " if own in fired else "MISSED ") + n, fired, rules)
json.dump([summ[k] for k in sorted(summ)], open(sf, "w"), indent=1)
